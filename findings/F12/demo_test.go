package udp

import (
	"net"
	"testing"

	"github.com/google/gopacket"
	"github.com/google/gopacket/layers"
	"github.com/v-byte-cpu/sx/pkg/scan"
)

// F12 (C05): with --iplen the length fixing is switched off for the whole frame, which left the UDP
// length field 0 although only the IP total length was overridden.
func TestDemoF12(t *testing.T) {
	f := NewPacketFiller(WithIPTotalLength(36), WithPayload([]byte("abcdefgh")))
	buf := gopacket.NewSerializeBuffer()
	err := f.Fill(buf, &scan.Request{SrcIP: net.IPv4(10, 0, 0, 1).To4(), DstIP: net.IPv4(10, 0, 0, 2).To4(),
		SrcMAC: net.HardwareAddr{1, 2, 3, 4, 5, 6}, DstMAC: net.HardwareAddr{6, 5, 4, 3, 2, 1}, DstPort: 53})
	if err != nil {
		t.Fatal(err)
	}
	b := buf.Bytes()
	iplen := int(b[14+2])<<8 | int(b[14+3])
	udplen := int(b[14+20+4])<<8 | int(b[14+20+5])
	t.Logf("ip total length %d, udp length %d", iplen, udplen)
	_ = layers.LayerTypeUDP
	if iplen != 36 {
		t.Errorf("ip total length override not verbatim: %d", iplen)
	}
	if udplen != 16 {
		t.Errorf("udp length field %d, want 8+8=16", udplen)
	}
}
