#!/bin/bash
# usage: run_demo.sh <repo-dir> <pkg-rel-dir> <demo_test.go> [-run regex]
# Injects the in-package demonstration test through a go overlay (the repo is never written).
set -u
REPO=$1; PKG=$2; TEST=$(readlink -f "$3"); RUN=${4:-Demo}
export GOFLAGS=-mod=mod GOPROXY=off GOSUMDB=off GOTOOLCHAIN=local
T=$(mktemp -d)
printf '{"Replace":{"%s/%s/zz_sxv_demo_test.go":"%s"}}' "$REPO" "$PKG" "$TEST" > $T/ov.json
(cd "$REPO" && go test -overlay $T/ov.json -vet=off -count=1 -timeout 60s -run "$RUN" -v "./$PKG" 2>&1)
rc=$?
rm -rf $T
exit $rc
