package command

import (
	"testing"
	"time"
)

// F10 (C18): ".5s" was parsed as 1.5s (a "1" is prefixed to everything not starting with a digit),
// and "1-2-3" was accepted as the port range 1-2.
func TestDemoF10(t *testing.T) {
	if n, w, err := parseRateLimit("5/.5s"); err == nil && (n != 5 || w != 500*time.Millisecond) {
		t.Errorf("parseRateLimit(5/.5s) = %d per %v", n, w)
	}
	if n, w, err := parseRateLimit("5/+5s"); err == nil && (n != 5 || w != 5*time.Second) {
		t.Errorf("parseRateLimit(5/+5s) = %d per %v", n, w)
	}
	if n, w, err := parseRateLimit("7/ms"); err != nil || n != 7 || w != time.Millisecond {
		t.Errorf("parseRateLimit(7/ms) = %d per %v, %v", n, w, err)
	}
	if r, err := parsePortRange("1-2-3"); err == nil {
		t.Errorf("parsePortRange(1-2-3) accepted as %+v", *r)
	}
}
