package command

import (
	"context"
	"os"
	"testing"
	"time"

	"github.com/v-byte-cpu/sx/pkg/scan"
)

// F02: "-f -" (address list on standard input) combined with more than one port.
// The address list is read once per port; before the fix the second pass found stdin drained,
// so only the first port was scanned.
func TestF02StdinListWithTwoPorts(t *testing.T) {
	r, w, err := os.Pipe()
	if err != nil {
		t.Fatal(err)
	}
	old := os.Stdin
	os.Stdin = r
	defer func() { os.Stdin = old }()
	go func() {
		w.WriteString("{\"ip\":\"10.0.0.1\"}\n{\"ip\":\"10.0.0.2\"}\n")
		w.Close()
	}()

	o := &ipPortScanCmdOpts{}
	o.ipFile = "-"
	o.portRanges = []*scan.PortRange{{StartPort: 80, EndPort: 81}}
	gen := o.newIPPortGenerator()
	ctx, cancel := context.WithTimeout(context.Background(), 5*time.Second)
	defer cancel()
	reqs, err := gen.GenerateRequests(ctx, &scan.Range{Ports: o.portRanges})
	if err != nil {
		t.Fatal(err)
	}
	seen := map[string]int{}
	for rq := range reqs {
		if rq.Err != nil {
			t.Fatalf("unexpected error request: %v", rq.Err)
		}
		seen[rq.DstIP.String()+":"+itoa(int(rq.DstPort))]++
	}
	for _, k := range []string{"10.0.0.1:80", "10.0.0.2:80", "10.0.0.1:81", "10.0.0.2:81"} {
		if seen[k] != 1 {
			t.Errorf("target %s probed %d times, want 1 (all: %v)", k, seen[k], seen)
		}
	}
}

func itoa(n int) string {
	if n == 0 {
		return "0"
	}
	s := ""
	for n > 0 {
		s = string(rune('0'+n%10)) + s
		n /= 10
	}
	return s
}
