package ip

import "testing"

// F3 (C02): every IPv6 form must be refused; before the fix "2001:db8::/126" was returned as a
// 16-byte network (crashing the subnet generator in FillBytes) and "::1" became IP=nil (0.0.0.0).
func TestDemoF03(t *testing.T) {
	for _, s := range []string{"2001:db8::/126", "::1", "::ffff:1.2.3.4/120", "::ffff:1.2.3.4", "fe80::1/64"} {
		n, err := ParseIPNet(s)
		if err == nil {
			t.Errorf("ParseIPNet(%q) accepted: %v (len(IP)=%d len(Mask)=%d)", s, n, len(n.IP), len(n.Mask))
		}
	}
	for _, s := range []string{"10.0.0.1", "10.0.0.0/24", "192.168.1.7/32"} {
		n, err := ParseIPNet(s)
		if err != nil || len(n.IP) != 4 || len(n.Mask) != 4 {
			t.Errorf("ParseIPNet(%q) = %v, %v", s, n, err)
		}
	}
}
