package command

import (
	"net"
	"testing"
)

// F9 (C17): the nil test on the source address preceded To4(), so a non-IPv4 --srcip produced a
// scan range with an empty source address and no error.
func TestDemoF09(t *testing.T) {
	iface, err := net.InterfaceByName("lo")
	if err != nil {
		t.Skip("no lo interface")
	}
	o := &packetScanCmdOpts{iface: iface, srcIP: net.ParseIP("2001:db8::1")}
	_, dst, _ := net.ParseCIDR("127.0.0.0/8")
	r, err := o.getScanRange(dst)
	if err == nil && len(r.SrcIP) != 4 {
		t.Fatalf("getScanRange accepted a non-IPv4 source: err=nil SrcIP=%v (len %d)", r.SrcIP, len(r.SrcIP))
	}
}
