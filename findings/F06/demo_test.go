package scan

import (
	"context"
	"io"
	"strings"
	"testing"
)

// F6 (C13): the address-file generator did not reset its decode target between lines, so a line
// without "ip" re-emitted the previous line's address instead of an error.
func TestDemoF06(t *testing.T) {
	g := NewFileIPGenerator(func() (io.ReadCloser, error) {
		return io.NopCloser(strings.NewReader("{\"ip\":\"1.2.3.4\"}\n{\"port\":5}\n")), nil
	})
	c, err := g.IPs(context.Background(), nil)
	if err != nil {
		t.Fatal(err)
	}
	var ips []string
	var errs int
	for x := range c {
		ip, e := x.GetIP()
		if e != nil {
			errs++
			continue
		}
		ips = append(ips, ip.String())
	}
	t.Logf("addresses %v, errors %d", ips, errs)
	if len(ips) != 1 || errs != 1 {
		t.Fatalf("want 1 address and 1 error, got %v and %d errors", ips, errs)
	}
}
