package command

import (
	"context"
	"net"
	"testing"

	"github.com/v-byte-cpu/sx/pkg/scan"
)

// F1 (C01): a file of ip/port pairs (no -p) leaves Range.Ports empty; before the fix the chunk
// loop of startPortScanEngine never ran, so no engine was started and nothing was probed.
func TestDemoF01(t *testing.T) {
	calls := 0
	conf := newPacketScanConfig(
		withPacketBPFFilter(func(r *scan.Range) (string, int) { calls++; return "tcp", 64 }),
		withPacketEngineConfig(newEngineConfig(withScanRange(&scan.Range{
			Interface: &net.Interface{Name: "sxv-no-such-iface"}}))),
	)
	err := startPortScanEngine(context.Background(), conf)
	// an engine start on a non-existent interface must fail; nil means no engine was started at all
	if err == nil {
		t.Fatalf("startPortScanEngine returned nil with empty Ports: no engine was started (filter calls=%d)", calls)
	}
}
