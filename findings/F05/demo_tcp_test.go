package tcp

import (
	"context"
	"net"
	"testing"
	"time"

	"github.com/google/gopacket"
	"github.com/google/gopacket/layers"
	"github.com/v-byte-cpu/sx/pkg/scan"
)

func demoSer(t *testing.T, ls ...gopacket.SerializableLayer) []byte {
	buf := gopacket.NewSerializeBuffer()
	if err := gopacket.SerializeLayers(buf, gopacket.SerializeOptions{FixLengths: true}, ls...); err != nil {
		t.Fatal(err)
	}
	return append([]byte(nil), buf.Bytes()...)
}

func demoDrain(c <-chan scan.Result) (out []scan.Result) {
	for {
		select {
		case r := <-c:
			out = append(out, r)
		case <-time.After(200 * time.Millisecond):
			return
		}
	}
}

// F5 (C06/C03): a frame Ethernet/IPv4(proto 4)/IPv4(proto 1)/ICMP-bytes decodes to the chain
// [Ethernet IPv4 IPv4]; before the fix validPacket only tested len == 3, so the stale TCP layer of
// the previous frame was reported under the new frame's inner source address.
func TestDemoF05TCP(t *testing.T) {
	ctx, cancel := context.WithCancel(context.Background())
	defer cancel()
	results := scan.NewResultChan(ctx, 10)
	sm := NewScanMethod(SYNScanType, nil, results)
	eth := &layers.Ethernet{SrcMAC: net.HardwareAddr{1, 2, 3, 4, 5, 6}, DstMAC: net.HardwareAddr{6, 5, 4, 3, 2, 1}, EthernetType: layers.EthernetTypeIPv4}
	ip1 := &layers.IPv4{Version: 4, IHL: 5, TTL: 64, Protocol: layers.IPProtocolTCP, SrcIP: net.IPv4(10, 1, 1, 1).To4(), DstIP: net.IPv4(10, 9, 9, 9).To4()}
	tcp1 := &layers.TCP{SrcPort: 22, DstPort: 40000, SYN: true, ACK: true}
	if err := sm.ProcessPacketData(demoSer(t, eth, ip1, tcp1), nil); err != nil {
		t.Fatal(err)
	}
	outer := &layers.IPv4{Version: 4, IHL: 5, TTL: 64, Protocol: layers.IPProtocolIPv4, SrcIP: net.IPv4(10, 2, 2, 2).To4(), DstIP: net.IPv4(10, 9, 9, 9).To4()}
	inner := &layers.IPv4{Version: 4, IHL: 5, TTL: 64, Protocol: layers.IPProtocolICMPv4, SrcIP: net.IPv4(10, 7, 7, 7).To4(), DstIP: net.IPv4(10, 9, 9, 9).To4()}
	if err := sm.ProcessPacketData(demoSer(t, eth, outer, inner, gopacket.Payload([]byte{0, 0, 0, 0, 0, 0, 0, 0})), nil); err != nil {
		t.Logf("second frame: %v", err)
	}
	t.Logf("decoded chain of second frame: %v", sm.rcvDecoded)
	got := demoDrain(results.Chan())
	if len(got) != 1 {
		for _, r := range got {
			t.Logf("RECORD %s", r)
		}
		t.Fatalf("want exactly 1 record (the SYN/ACK frame), got %d: a frame without TCP produced a record", len(got))
	}
}
