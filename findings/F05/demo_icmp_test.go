package icmp

import (
	"context"
	"net"
	"testing"
	"time"

	"github.com/google/gopacket"
	"github.com/google/gopacket/layers"
	"github.com/v-byte-cpu/sx/pkg/scan"
)

func demoSer(t *testing.T, ls ...gopacket.SerializableLayer) []byte {
	buf := gopacket.NewSerializeBuffer()
	if err := gopacket.SerializeLayers(buf, gopacket.SerializeOptions{FixLengths: true}, ls...); err != nil {
		t.Fatal(err)
	}
	return append([]byte(nil), buf.Bytes()...)
}

func demoDrain(c <-chan scan.Result) (out []scan.Result) {
	for {
		select {
		case r := <-c:
			out = append(out, r)
		case <-time.After(200 * time.Millisecond):
			return
		}
	}
}

// F5 (C06/C03), icmp side: chain [Ethernet IPv4 IPv4] (IP-in-IP carrying protocol 6 bytes that are
// not decoded) passed len == 3 and re-emitted the previous frame's ICMP type/code.
func TestDemoF05ICMP(t *testing.T) {
	ctx, cancel := context.WithCancel(context.Background())
	defer cancel()
	results := scan.NewResultChan(ctx, 10)
	pp := NewPacketProcessor(ScanType, results, false)
	eth := &layers.Ethernet{SrcMAC: net.HardwareAddr{1, 2, 3, 4, 5, 6}, DstMAC: net.HardwareAddr{6, 5, 4, 3, 2, 1}, EthernetType: layers.EthernetTypeIPv4}
	ip1 := &layers.IPv4{Version: 4, IHL: 5, TTL: 64, Protocol: layers.IPProtocolICMPv4, SrcIP: net.IPv4(10, 1, 1, 1).To4(), DstIP: net.IPv4(10, 9, 9, 9).To4()}
	ic := &layers.ICMPv4{TypeCode: layers.CreateICMPv4TypeCode(3, 3)}
	if err := pp.ProcessPacketData(demoSer(t, eth, ip1, ic, gopacket.Payload([]byte{1, 2, 3, 4})), nil); err != nil {
		t.Fatal(err)
	}
	outer := &layers.IPv4{Version: 4, IHL: 5, TTL: 64, Protocol: layers.IPProtocolIPv4, SrcIP: net.IPv4(10, 2, 2, 2).To4(), DstIP: net.IPv4(10, 9, 9, 9).To4()}
	inner := &layers.IPv4{Version: 4, IHL: 5, TTL: 64, Protocol: layers.IPProtocolTCP, SrcIP: net.IPv4(10, 7, 7, 7).To4(), DstIP: net.IPv4(10, 9, 9, 9).To4()}
	_ = pp.ProcessPacketData(demoSer(t, eth, outer, inner, gopacket.Payload(make([]byte, 20))), nil)
	t.Logf("decoded chain of second frame: %v", pp.rcvDecoded)
	got := demoDrain(results.Chan())
	if len(got) != 1 {
		for _, r := range got {
			t.Logf("RECORD %s", r)
		}
		t.Fatalf("want exactly 1 record, got %d: a frame without ICMP produced a record", len(got))
	}
}
