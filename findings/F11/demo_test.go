package elastic

import (
	"context"
	"net"
	"net/http"
	"net/http/httptest"
	"strconv"
	"testing"

	"github.com/v-byte-cpu/sx/pkg/scan"
)

// F11 (C10): a body "null" decodes into a nil map without error, so an endpoint that did not serve
// a JSON object was reported.
func TestDemoF11(t *testing.T) {
	srv := httptest.NewServer(http.HandlerFunc(func(w http.ResponseWriter, r *http.Request) { w.Write([]byte("null")) }))
	defer srv.Close()
	host, p, _ := net.SplitHostPort(srv.Listener.Addr().String())
	port, _ := strconv.Atoi(p)
	res, err := NewScanner("http").Scan(context.Background(), &scan.Request{DstIP: net.ParseIP(host), DstPort: uint16(port)})
	if res != nil {
		t.Fatalf("endpoint answering `null` was reported: %v (err=%v)", res, err)
	}
}
