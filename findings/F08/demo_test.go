package arp

import (
	"context"
	"errors"
	"net"
	"testing"

	"github.com/v-byte-cpu/sx/pkg/scan"
)

type demoGen struct{ reqs []*scan.Request }

func (g *demoGen) GenerateRequests(ctx context.Context, r *scan.Range) (<-chan *scan.Request, error) {
	c := make(chan *scan.Request, len(g.reqs))
	for _, x := range g.reqs {
		c <- x
	}
	close(c)
	return c, nil
}

// F8 (C13): the ARP-cache stage overwrote the cause of an error request with "no destination MAC
// address for <nil>" (or attached the gateway MAC to it).
func TestDemoF08(t *testing.T) {
	cause := errors.New("invalid port")
	for _, gw := range []net.HardwareAddr{nil, {1, 2, 3, 4, 5, 6}} {
		g := NewCacheRequestGenerator(&demoGen{[]*scan.Request{{Err: cause}}}, gw, NewCache())
		c, err := g.GenerateRequests(context.Background(), &scan.Range{})
		if err != nil {
			t.Fatal(err)
		}
		for x := range c {
			if x.Err != cause || x.DstMAC != nil {
				t.Errorf("gateway=%v: error request changed: Err=%v DstMAC=%v", gw, x.Err, x.DstMAC)
			}
		}
	}
}
