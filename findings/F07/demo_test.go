package scan

import (
	"context"
	"net"
	"testing"
)

type demoGen struct{ reqs []*Request }

func (g *demoGen) GenerateRequests(ctx context.Context, r *Range) (<-chan *Request, error) {
	c := make(chan *Request, len(g.reqs))
	for _, x := range g.reqs {
		c <- x
	}
	close(c)
	return c, nil
}

type demoContainer struct{ calls int }

func (c *demoContainer) Contains(ip net.IP) (bool, error) {
	c.calls++
	if len(ip) == 0 {
		return false, ErrSubnet
	}
	return false, nil
}

// F7 (C13): the exclusion filter looked up the (nil) address of an error request and replaced the
// original cause by the container's error.
func TestDemoF07(t *testing.T) {
	ct := &demoContainer{}
	g := NewFilterIPRequestGenerator(&demoGen{[]*Request{{Err: ErrPort}, {DstIP: net.IPv4(1, 2, 3, 4).To4(), DstPort: 80}}}, ct)
	c, err := g.GenerateRequests(context.Background(), &Range{})
	if err != nil {
		t.Fatal(err)
	}
	var got []*Request
	for x := range c {
		got = append(got, x)
	}
	if len(got) != 2 || got[0].Err != ErrPort || got[1].Err != nil {
		for _, x := range got {
			t.Logf("request %+v", *x)
		}
		t.Fatalf("error request was not passed through unchanged")
	}
}
