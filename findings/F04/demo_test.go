package arp

import (
	"context"
	"net"
	"strings"
	"testing"
	"time"

	"github.com/google/gopacket"
	"github.com/google/gopacket/layers"
	"github.com/v-byte-cpu/sx/pkg/scan"
)

func demoSer(t *testing.T, ls ...gopacket.SerializableLayer) []byte {
	buf := gopacket.NewSerializeBuffer()
	if err := gopacket.SerializeLayers(buf, gopacket.SerializeOptions{}, ls...); err != nil {
		t.Fatal(err)
	}
	return append([]byte(nil), buf.Bytes()...)
}

func demoDrain(c <-chan scan.Result) (out []scan.Result) {
	for {
		select {
		case r := <-c:
			out = append(out, r)
		case <-time.After(200 * time.Millisecond):
			return
		}
	}
}

func demoARP(hw, prot int) *layers.ARP {
	return &layers.ARP{AddrType: layers.LinkTypeEthernet, Protocol: layers.EthernetTypeIPv4,
		HwAddressSize: uint8(hw), ProtAddressSize: uint8(prot), Operation: layers.ARPReply,
		SourceHwAddress: []byte{0xaa, 0xbb, 0xcc, 0xdd, 0xee, 0xff}[:hw], SourceProtAddress: []byte{10, 0, 0, 1}[:prot],
		DstHwAddress: []byte{1, 2, 3, 4, 5, 6}[:hw], DstProtAddress: []byte{10, 0, 0, 2}[:prot]}
}

// F4 (C06/C03/C11): (b) a frame Ethernet(0x6558)/Ethernet/garbage decodes to [Ethernet Ethernet]
// and re-emitted the previous frame's ARP sender; (c) an ARP reply with 3-byte hardware addresses was
// reported with "mac":"aa:bb:cc", which the ARP-cache loader rejects; (d) a frame with hardware
// address size 0 crashed in SourceHwAddress[:3].
func TestDemoF04(t *testing.T) {
	ctx, cancel := context.WithCancel(context.Background())
	defer cancel()
	results := scan.NewResultChan(ctx, 10)
	sm := NewScanMethod(nil, results)
	eth := &layers.Ethernet{SrcMAC: net.HardwareAddr{0xaa, 0xbb, 0xcc, 0xdd, 0xee, 0xff}, DstMAC: net.HardwareAddr{6, 5, 4, 3, 2, 1}, EthernetType: layers.EthernetTypeARP}
	if err := sm.ProcessPacketData(demoSer(t, eth, demoARP(6, 4)), nil); err != nil {
		t.Fatal(err)
	}
	// (b) Ethernet in Ethernet, no ARP at all
	eth2 := &layers.Ethernet{SrcMAC: eth.SrcMAC, DstMAC: eth.DstMAC, EthernetType: layers.EthernetTypeTransparentEthernetBridging}
	eth3 := &layers.Ethernet{SrcMAC: eth.SrcMAC, DstMAC: eth.DstMAC, EthernetType: layers.EthernetType(0x9999)}
	_ = sm.ProcessPacketData(demoSer(t, eth2, eth3, gopacket.Payload([]byte{1, 2, 3, 4})), nil)
	t.Logf("(b) decoded chain: %v", sm.rcvDecoded)
	// (c) 3-byte hardware addresses
	_ = sm.ProcessPacketData(demoSer(t, eth, demoARP(3, 4)), nil)
	// (d) zero sizes, exact-capacity buffer
	func() {
		defer func() {
			if r := recover(); r != nil {
				t.Errorf("(d) crash: %v", r)
			}
		}()
		frame := demoSer(t, eth, demoARP(0, 0))
		exact := make([]byte, len(frame))
		copy(exact, frame)
		_ = sm.ProcessPacketData(exact[:len(exact):len(exact)], nil)
	}()
	got := demoDrain(results.Chan())
	for _, r := range got {
		t.Logf("RECORD %s", r)
		m := r.(*ScanResult).MAC
		if len(strings.Split(m, ":")) != 6 {
			t.Errorf("record with non 6-byte MAC %q", m)
		}
	}
	if len(got) != 1 {
		t.Fatalf("want exactly 1 record (the first, well-formed reply), got %d", len(got))
	}
}
