package main

// Replay template for crashes on the ARP receive path: the counterexample fixes the state of the decoded layers
// AFTER the (external) gopacket decoder ran; the template turns that state back into a frame with the library's own
// encoder (Ethernet + ARP header whose size fields are the lengths of the counterexample's address slices), builds
// the scan method with its real constructor and feeds the frame to the real ProcessPacketData. Reproduced iff the
// real code panics at the obligation's source position.

import (
	"fmt"
	"go/types"
	"sort"
	"strings"
)

func init() {
	replayTemplates = append(replayTemplates, replayTemplate{
		match: func(o *Obligation) bool {
			return o.Kind == "safe" && o.Func == "pkg/scan/arp.(*ScanMethod).ProcessPacketData" && o.Goal != nil &&
				strings.HasPrefix(strings.TrimSpace(o.Output), "sat") && o.Heap != nil
		},
		run: arpFrameReplay,
	})
}

func arpFrameReplay(rf *ReplayFile, o *Obligation, p *Program, repo string) {
	defer func() {
		if r := recover(); r != nil {
			rf.ReplayNote = fmt.Sprintf("replay generator failed: %v", r)
			rf.TestFile = ""
			rf.Reproduced = false
		}
	}()
	fn := p.Funcs[o.Func]
	loc := safeLocation(o.Name)
	if fn == nil || loc == "" || replayAttempts >= 4 {
		return
	}
	replayAttempts++
	g := &replayGen{heap: o.Heap, pkg: fn.Pkg.Pkg, imports: map[string]string{}}
	recvT := fn.Params[0].Type()
	st := recvT.Underlying().(*types.Pointer).Elem().Underlying().(*types.Struct)
	base := Sym("p."+sanitize(fn.Params[0].Name()), SInt)
	fields, names := g.buildFields(base, recvT.Underlying().(*types.Pointer).Elem(), st, 1)
	var arpN *rnode
	for i, n := range names {
		if n == "rcvARP" {
			arpN = fields[i]
		}
	}
	if arpN == nil {
		rf.ReplayNote = "replay not attempted: the receiver has no rcvARP layer any more"
		return
	}
	var small []*Term
	for _, n := range g.nodes {
		if n.kind == "ints" {
			small = append(small, Le(App("slen", SInt, n.t), Num(32)))
		}
	}
	if _, note, ok := g.solve(o, nil, small); !ok {
		rf.ReplayNote = note
		return
	}
	lit, ok := g.lit(arpN)
	if !ok {
		rf.ReplayNote = "replay not attempted: the ARP layer of the counterexample cannot be written as a literal"
		return
	}
	layersQ := g.qual(arpN.ty.(*types.Named).Obj().Pkg())
	var b strings.Builder
	var ips []string
	g.imports["github.com/google/gopacket"] = "sxvgp"
	g.imports[repoModule+"/pkg/scan"] = "sxvscan"
	for p := range g.imports {
		ips = append(ips, p)
	}
	sort.Strings(ips)
	fmt.Fprintf(&b, "package %s\n\nimport (\n\t\"context\"\n\t\"runtime/debug\"\n\t\"strings\"\n\t\"testing\"\n", fn.Pkg.Pkg.Name())
	for _, p := range ips {
		fmt.Fprintf(&b, "\t%s %q\n", g.imports[p], p)
	}
	b.WriteString(")\n\n")
	fmt.Fprintf(&b, "// replay of the counterexample for obligation\n//   %s\n// the frame is the library's own encoding of the ARP layer state the counterexample reaches after decoding\n", o.Name)
	b.WriteString("func TestSxvReplay(t *testing.T) {\n")
	fmt.Fprintf(&b, "\ta := %s\n", lit)
	b.WriteString("\ta.HwAddressSize = uint8(len(a.SourceHwAddress))\n\ta.ProtAddressSize = uint8(len(a.SourceProtAddress))\n")
	b.WriteString("\ta.DstHwAddress = make([]byte, len(a.SourceHwAddress))\n\ta.DstProtAddress = make([]byte, len(a.SourceProtAddress))\n")
	fmt.Fprintf(&b, "\teth := &%s.Ethernet{SrcMAC: []byte{2, 0, 0, 0, 0, 1}, DstMAC: []byte{255, 255, 255, 255, 255, 255}, EthernetType: %s.EthernetTypeARP}\n", layersQ, layersQ)
	b.WriteString("\tbuf := sxvgp.NewSerializeBuffer()\n\tif err := sxvgp.SerializeLayers(buf, sxvgp.SerializeOptions{}, eth, &a); err != nil {\n\t\tt.Skipf(\"frame cannot be encoded: %v\", err)\n\t}\n")
	b.WriteString("\tctx, cancel := context.WithCancel(context.Background())\n\tdefer cancel()\n\tsm := NewScanMethod(nil, sxvscan.NewResultChan(ctx, 16))\n")
	b.WriteString("\t// the encoder pads to the Ethernet minimum; a capture can deliver the bare frame (the counterexample's slices end where the frame ends)\n")
	b.WriteString("\tframe := buf.Bytes()\n\tif n := 14 + 8 + 2*(len(a.SourceHwAddress)+len(a.SourceProtAddress)); n < len(frame) {\n\t\tframe = frame[:n:n]\n\t}\n")
	b.WriteString("\tt.Logf(\"frame: %x\", frame)\n")
	fmt.Fprintf(&b, "\tdefer func() {\n\t\tif r := recover(); r != nil {\n\t\t\tif strings.Contains(string(debug.Stack()), %q) {\n\t\t\t\tt.Fatalf(\"REPRODUCED: the real code panics at %s on this frame: %%v\", r)\n\t\t\t}\n\t\t\tt.Logf(\"panic at another place than the obligation's: %%v\", r)\n\t\t}\n\t}()\n", loc, loc)
	b.WriteString("\terr := sm.ProcessPacketData(frame, nil)\n\tt.Logf(\"no panic on this frame (err=%v)\", err)\n}\n")
	rf.TestPkg = strings.TrimPrefix(strings.TrimPrefix(fn.Pkg.Pkg.Path(), repoModule), "/")
	rf.TestFile = b.String()
	out, failed := runOverlayTest(repo, rf.TestPkg, rf.TestFile, "TestSxvReplay")
	rf.GoTestOut = out
	rf.Reproduced = failed && strings.Contains(out, "REPRODUCED")
	if !rf.Reproduced {
		rf.ReplayNote = "the frame built from the counterexample was run on the real code but did not reproduce the crash there"
	}
}
