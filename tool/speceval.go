package main

import (
	"go/token"
	"fmt"
	"go/constant"
	"go/types"
	"math/big"
	"strconv"
	"strings"

	"golang.org/x/tools/go/ssa"
)

type SpecEnv struct {
	ex       *Executor
	st       *State
	fr       *Frame
	vars     map[string]Val
	pkgRel   string
	oldHeap  map[string]*Term
	oldAlloc *Term
	inOld    bool
	inPre    bool
	snaps    map[string][]Val // bound slice arguments: elements at the time of the call
	bindHeap map[string]map[string]*Term // argument binders of call events: the heap when that call started
	heapOverride map[string]*Term // evaluate against this heap instead of the current one
	depth    int
	assuming bool // the expression is being assumed (callee contract at a call site), not checked
	calleeFn *ssa.Function // call sites: the function whose contract is being evaluated
	noRename bool
}

// renamedParam: the contract of fn (or of a function enclosing it) was written when a receiver or parameter was
// called `name`; the position is still there under another name, and nothing in fn is called `name` now.
func (ex *Executor) renamedParam(fn *ssa.Function, name string) string {
	if fn == nil || ex.S == nil || hasSourceName(fn, name) {
		return ""
	}
	for f := fn; f != nil; f = f.Parent() {
		spec := ex.S.Funcs[funcKey(f)]
		if spec == nil || len(spec.Sig) != len(f.Params) {
			continue
		}
		for i, a := range spec.Sig {
			if a == name && f.Params[i].Name() != name {
				return f.Params[i].Name()
			}
		}
	}
	return ""
}

func (ex *Executor) envFor(st *State, fr *Frame) *SpecEnv {
	env := &SpecEnv{ex: ex, st: st, fr: fr, vars: map[string]Val{}, oldHeap: fr.oldHeap, oldAlloc: fr.oldAlloc}
	if fr.spec != nil {
		env.pkgRel = fr.spec.Pkg
	} else if fr.fn.Pkg != nil {
		env.pkgRel = relPkg(fr.fn.Pkg.Pkg.Path())
	}
	for k, v := range fr.params {
		env.vars[k] = v
	}
	return env
}

func (env *SpecEnv) bindResults(fn *ssa.Function, res []Val) {
	for i, r := range res {
		env.vars[fmt.Sprintf("ret%d", i)] = r
		if i == 0 {
			env.vars["ret"] = r
		}
		if fn != nil && i < fn.Signature.Results().Len() {
			if n := fn.Signature.Results().At(i).Name(); n != "" && n != "_" {
				env.vars["ret_"+n] = r
			}
		}
	}
}

func (env *SpecEnv) child() *SpecEnv {
	n := *env
	n.vars = map[string]Val{}
	for k, v := range env.vars {
		n.vars[k] = v
	}
	return &n
}

func (env *SpecEnv) heapArr(name string, s Sort) *Term {
	if env.heapOverride != nil {
		return heapGetIn(env.heapOverride, name, s)
	}
	if env.inOld && env.oldHeap != nil {
		return heapGetIn(env.oldHeap, name, s)
	}
	return env.st.heapGet(name, s)
}

func (env *SpecEnv) pkg() *types.Package {
	for _, p := range env.ex.P.Pkgs {
		if relPkg(p.PkgPath) == env.pkgRel {
			return p.Types
		}
	}
	return nil
}

func specBool(t *Term) Val { return Val{T: t, Ty: types.Typ[types.Bool]} }
func specInt(t *Term) Val  { return Val{T: t} }

// rootBinder: the identifier an access path starts from (x.f, x[i], asptr(x, T).f, capt(x, "v")[i], len(x), ...)
func rootBinder(e *SExpr) string {
	switch e.Kind {
	case "ident":
		return e.Name
	case "sel", "index":
		return rootBinder(e.Args[0])
	case "call":
		switch e.Name {
		case "asptr", "astype", "isptr", "istype", "capt", "closureof", "len", "content", "backing", "fresh":
			if len(e.Args) > 0 {
				return rootBinder(e.Args[0])
			}
		}
	}
	return ""
}

func (ex *Executor) evalSpec(e *SExpr, env *SpecEnv) (Val, error) {
	switch e.Kind {
	case "num":
		b, ok := new(big.Int).SetString(e.Num, 0)
		if !ok {
			return Val{}, fmt.Errorf("bad number %s", e.Num)
		}
		return specInt(NumB(b)), nil
	case "bool":
		return specBool(Bool(e.Name == "true")), nil
	case "nil":
		return Val{T: Num(0)}, nil
	case "str":
		return Val{T: strLit(e.Name), Ty: types.Typ[types.String]}, nil
	case "ident":
		return ex.evalIdent(e.Name, env)
	case "unary":
		a, err := ex.evalSpec(e.Args[0], env)
		if err != nil {
			return Val{}, err
		}
		if e.Name == "!" {
			if a.T == nil || a.T.S != SBool {
				return Val{}, fmt.Errorf("! of non-bool %s", e.Args[0])
			}
			return specBool(Not(a.T)), nil
		}
		return specInt(Sub(Num(0), a.T)), nil
	case "binary":
		return ex.evalBinary(e, env)
	case "sel":
		return ex.evalSel(e, env)
	case "index":
		return ex.evalIndex(e, env)
	case "call":
		return ex.evalCallSpec(e, env)
	case "forall", "exists":
		c := env.child()
		var bound []*Term
		var guards []*Term
		for _, b := range e.Bound {
			freshCtr++
			s := SInt
			if b.Type == "bool" {
				s = SBool
			}
			t := Sym(fmt.Sprintf("%s!b%d", b.Name, freshCtr), s)
			bound = append(bound, t)
			v := Val{T: t}
			if b.Type != "" && b.Type != "int" && b.Type != "bool" {
				ty, err := ex.resolveType(b.Type, env)
				if err == nil {
					v.Ty = ty
					guards = append(guards, rangeFact(t, ty))
				}
			}
			c.vars[b.Name] = v
		}
		body, err := ex.evalSpec(e.Args[0], c)
		if err != nil {
			return Val{}, err
		}
		if e.Kind == "forall" {
			return specBool(Forall(bound, Implies(And(guards...), body.T))), nil
		}
		return specBool(Exists(bound, And(append(guards, body.T)...))), nil
	}
	return Val{}, fmt.Errorf("cannot evaluate %s", e)
}

func (ex *Executor) evalIdent(name string, env *SpecEnv) (Val, error) {
	if v, ok := env.vars[name]; ok {
		return v, nil
	}
	if name == "recv" && env.fr != nil && env.fr.fn.Signature.Recv() != nil && len(env.fr.fn.Params) > 0 {
		// the receiver, whatever it is called (promoted-method wrappers have no source name for it)
		if v, ok := env.fr.vals[env.fr.fn.Params[0]]; ok {
			return v, nil
		}
	}
	if env.fr != nil {
		if l, ok := env.fr.locals[name]; ok && !l.isAddr {
			// a variable that lives in a memory cell (named result, address-taken or captured local) always denotes
			// the current content of its cell, whatever the last debug reference was
			if a := allocNamed(env.fr.fn, name); a != nil {
				if pv, ok := env.fr.vals[a]; ok {
					env.fr.locals[name] = localRef{v: pv, isAddr: true}
				}
			}
		}
		if _, ok := env.fr.locals[name]; !ok {
			// cell-backed variable without a debug reference on this path yet (named result of a function with defers)
			if a := allocNamed(env.fr.fn, name); a != nil {
				if pv, ok := env.fr.vals[a]; ok {
					env.fr.locals[name] = localRef{v: pv, isAddr: true}
				}
			}
		}
		if l, ok := env.fr.locals[name]; ok {
			if l.isAddr {
				if env.heapOverride != nil {
					if p := ex.ptrOf(l.v); p.Kind == PCell && !isStruct(p.Elem) {
						srt := sortOf(p.Elem)
						return Val{T: Select(heapGetIn(env.heapOverride, cellName(srt), arrayOf(srt)), p.Base), Ty: p.Elem}, nil
					}
				}
				v := ex.load(env.st, l.v)
				return v, nil
			}
			if env.inPre && env.st != nil && env.st.segLocals != nil && env.fr.unit {
				if v, ok := env.st.segLocals[name]; ok {
					return v, nil
				}
			}
			return l.v, nil
		}
	}
	// named results: ret_<name> alias
	if v, ok := env.vars["ret_"+name]; ok {
		return v, nil
	}
	if pkg := env.pkg(); pkg != nil {
		if obj := pkg.Scope().Lookup(name); obj != nil {
			return ex.objVal(obj, env)
		}
	}
	if obj := types.Universe.Lookup(name); obj != nil {
		if c, ok := obj.(*types.Const); ok {
			return constVal(c), nil
		}
	}
	if !env.noRename {
		fn := env.calleeFn
		if env.fr != nil {
			fn = env.fr.fn
		}
		nn := ex.renamedParam(fn, name)
		if nn == "" && env.fr != nil {
			nn = ex.renamedLocal(fn, name)
		}
		if nn != "" {
			e2 := *env
			e2.noRename = true
			if v, err := ex.evalIdent(nn, &e2); err == nil {
				return v, nil
			}
		}
	}
	return Val{}, fmt.Errorf("unknown identifier %q", name)
}

func constVal(c *types.Const) Val {
	switch c.Val().Kind() {
	case constant.Bool:
		return Val{T: Bool(constant.BoolVal(c.Val())), Ty: c.Type()}
	case constant.Int:
		b, _ := new(big.Int).SetString(c.Val().ExactString(), 10)
		return Val{T: NumB(b), Ty: c.Type()}
	case constant.String:
		return Val{T: strLit(constant.StringVal(c.Val())), Ty: c.Type()}
	}
	return Val{T: UniqueSym("const!" + sanitize(c.Val().ExactString())), Ty: c.Type()}
}

func (ex *Executor) objVal(obj types.Object, env *SpecEnv) (Val, error) {
	switch o := obj.(type) {
	case *types.Const:
		return constVal(o), nil
	case *types.Var:
		// package-level variable
		if sp := ex.P.Prog.Package(o.Pkg()); sp != nil {
			if g, ok := sp.Members[o.Name()].(*ssa.Global); ok {
				return ex.load(env.st, Val{P: &Ptr{Kind: PGlobal, G: g}, Ty: g.Type()}), nil
			}
		}
		// variable of a dependency (e.g. io.EOF): the same symbol the executor uses
		name := "g." + sanitize(relPkg(o.Pkg().Path())+"."+o.Name())
		if types.Identical(o.Type(), types.Universe.Lookup("error").Type()) {
			return Val{T: UniqueSym(name), Ty: o.Type()}, nil
		}
		return Val{T: Sym(name, sortOf(o.Type())), Ty: o.Type()}, nil
	case *types.Func:
		if sp := ex.P.Prog.Package(o.Pkg()); sp != nil {
			if f := sp.Func(o.Name()); f != nil {
				return Val{T: fnId(f), Ty: o.Type(), Fn: &FnVal{Fn: f, Id: fnId(f)}}, nil
			}
		}
		if f := ex.P.Prog.FuncValue(o); f != nil {
			return Val{T: fnId(f), Ty: o.Type(), Fn: &FnVal{Fn: f, Id: fnId(f)}}, nil
		}
	}
	return Val{}, fmt.Errorf("cannot use %s in a specification", obj)
}

func (ex *Executor) importedPkg(name string, env *SpecEnv) *types.Package {
	pkg := env.pkg()
	if pkg == nil {
		return nil
	}
	for _, imp := range pkg.Imports() {
		if imp.Name() == name {
			return imp
		}
	}
	// import aliases of the package's own source files (afp "github.com/google/gopacket/afpacket")
	for _, lp := range ex.P.Pkgs {
		if lp.Types != pkg {
			continue
		}
		for _, f := range lp.Syntax {
			for _, is := range f.Imports {
				if is.Name != nil && is.Name.Name == name {
					path := strings.Trim(is.Path.Value, "\"")
					for _, imp := range pkg.Imports() {
						if imp.Path() == path {
							return imp
						}
					}
				}
			}
		}
	}
	// any loaded package with that name (contracts may mention packages their package does not import)
	var found *types.Package
	var walk func(p *types.Package, seen map[*types.Package]bool)
	walk = func(p *types.Package, seen map[*types.Package]bool) {
		if seen[p] || found != nil {
			return
		}
		seen[p] = true
		if p.Name() == name {
			found = p
			return
		}
		for _, i := range p.Imports() {
			walk(i, seen)
		}
	}
	seen := map[*types.Package]bool{}
	for _, p := range ex.P.Pkgs {
		walk(p.Types, seen)
	}
	return found
}

func (ex *Executor) resolveType(text string, env *SpecEnv) (types.Type, error) {
	text = strings.TrimSpace(text)
	if strings.HasPrefix(text, "*") {
		t, err := ex.resolveType(text[1:], env)
		if err != nil {
			return nil, err
		}
		return types.NewPointer(t), nil
	}
	if strings.HasPrefix(text, "[]") {
		t, err := ex.resolveType(text[2:], env)
		if err != nil {
			return nil, err
		}
		return types.NewSlice(t), nil
	}
	if i := strings.Index(text, "."); i >= 0 {
		p := ex.importedPkg(text[:i], env)
		if p == nil {
			return nil, fmt.Errorf("unknown package %q", text[:i])
		}
		obj := p.Scope().Lookup(text[i+1:])
		if obj == nil {
			if nn, ok := typeRenames[p.Path()+"."+text[i+1:]]; ok {
				obj = p.Scope().Lookup(nn)
			}
		}
		if obj == nil {
			return nil, fmt.Errorf("unknown type %s", text)
		}
		return obj.Type(), nil
	}
	if obj := types.Universe.Lookup(text); obj != nil {
		return obj.Type(), nil
	}
	if pkg := env.pkg(); pkg != nil {
		if obj := pkg.Scope().Lookup(text); obj != nil {
			return obj.Type(), nil
		}
		if nn, ok := typeRenames[pkg.Path()+"."+text]; ok {
			if obj := pkg.Scope().Lookup(nn); obj != nil {
				return obj.Type(), nil
			}
		}
	}
	return nil, fmt.Errorf("unknown type %q", text)
}

func (ex *Executor) evalBinary(e *SExpr, env *SpecEnv) (Val, error) {
	a, err := ex.evalSpec(e.Args[0], env)
	if err != nil {
		return Val{}, err
	}
	// short-circuit typing is irrelevant: evaluate both
	b, err := ex.evalSpec(e.Args[1], env)
	if err != nil {
		return Val{}, err
	}
	needBool := func() error {
		if a.T == nil || b.T == nil || a.T.S != SBool || b.T.S != SBool {
			return fmt.Errorf("%s needs boolean operands in %s", e.Name, e)
		}
		return nil
	}
	needInt := func() error {
		if a.T == nil || b.T == nil || a.T.S != SInt || b.T.S != SInt {
			return fmt.Errorf("%s needs integer operands in %s", e.Name, e)
		}
		return nil
	}
	switch e.Name {
	case "&&":
		if err := needBool(); err != nil {
			return Val{}, err
		}
		return specBool(And(a.T, b.T)), nil
	case "||":
		if err := needBool(); err != nil {
			return Val{}, err
		}
		return specBool(Or(a.T, b.T)), nil
	case "==>":
		if err := needBool(); err != nil {
			return Val{}, err
		}
		return specBool(Implies(a.T, b.T)), nil
	case "<==>":
		if err := needBool(); err != nil {
			return Val{}, err
		}
		return specBool(Eq(a.T, b.T)), nil
	case "==", "!=":
		at, bt := a.T, b.T
		if at == nil {
			at = ex.asTerm(env.st, a)
		}
		if bt == nil {
			bt = ex.asTerm(env.st, b)
		}
		if at.S != bt.S {
			return Val{}, fmt.Errorf("comparison of different sorts in %s", e)
		}
		if t := emptyStringTest(at, bt); t != nil {
			if e.Name == "==" {
				return specBool(t), nil
			}
			return specBool(Not(t)), nil
		}
		if e.Name == "==" {
			return specBool(Eq(at, bt)), nil
		}
		return specBool(Neq(at, bt)), nil
	case "<", "<=", ">", ">=":
		if err := needInt(); err != nil {
			return Val{}, err
		}
		return specBool(cmp(e.Name, a.T, b.T)), nil
	case "+":
		if err := needInt(); err != nil {
			return Val{}, err
		}
		if a.Ty != nil && isString(a.Ty) {
			return Val{T: StrCat(a.T, b.T), Ty: a.Ty}, nil
		}
		return specInt(Add(a.T, b.T)), nil
	case "-":
		if err := needInt(); err != nil {
			return Val{}, err
		}
		return specInt(Sub(a.T, b.T)), nil
	case "*":
		if err := needInt(); err != nil {
			return Val{}, err
		}
		return specInt(Mul(a.T, b.T)), nil
	case "/":
		if err := needInt(); err != nil {
			return Val{}, err
		}
		return specInt(Div(a.T, b.T)), nil
	case "%":
		if err := needInt(); err != nil {
			return Val{}, err
		}
		return specInt(Mod(a.T, b.T)), nil
	case "<<":
		if b.T.IsNum() && b.T.Num.IsInt64() {
			return specInt(Mul(a.T, NumB(pow2(uint(b.T.Num.Int64()))))), nil
		}
		return specInt(Mul(a.T, ex.pow2Term(env.st, b.T))), nil
	}
	return Val{}, fmt.Errorf("unknown operator %s", e.Name)
}

func (ex *Executor) ghostField(owner types.Type, field string) *GhostField {
	var name string
	if n, ok := owner.(*types.Named); ok {
		name = n.Obj().Name()
	}
	for _, g := range ex.S.Ghosts {
		if g.Type == name && g.Field == field {
			return g
		}
	}
	return nil
}

func (ex *Executor) evalSel(e *SExpr, env *SpecEnv) (Val, error) {
	// package-qualified name?
	if e.Args[0].Kind == "ident" {
		if _, isVar := env.vars[e.Args[0].Name]; !isVar {
			shadow := false
			if env.fr != nil {
				_, shadow = env.fr.locals[e.Args[0].Name]
			}
			if !shadow {
				if p := ex.importedPkg(e.Args[0].Name, env); p != nil {
					obj := p.Scope().Lookup(e.Name)
					if obj == nil {
						return Val{}, fmt.Errorf("%s.%s not found", e.Args[0].Name, e.Name)
					}
					return ex.objVal(obj, env)
				}
			}
		}
	}
	base, err := ex.evalSpec(e.Args[0], env)
	if err != nil {
		return Val{}, err
	}
	if base.Ty == nil {
		return Val{}, fmt.Errorf("selector %s on untyped value", e)
	}
	ty := base.Ty
	ref := base.T
	isPtr := false
	if pt, ok := ty.Underlying().(*types.Pointer); ok {
		ty = pt.Elem()
		isPtr = true
	}
	s := structOf(ty)
	if s == nil {
		return Val{}, fmt.Errorf("selector %s on non-struct %s", e, base.Ty)
	}
	// ghost field?
	if g := ex.ghostField(ty, e.Name); g != nil {
		srt := SInt
		if g.Sort == "bool" {
			srt = SBool
		}
		if !isPtr {
			return Val{}, fmt.Errorf("ghost field %s needs a pointer receiver", e)
		}
		return Val{T: Select(env.heapArr(fieldMapName(ty, g.Field), arrayOf(srt)), ref)}, nil
	}
	idx, emb := findField(s, e.Name)
	if idx < 0 {
		return Val{}, fmt.Errorf("no field %s in %s", e.Name, ty)
	}
	if emb != nil {
		// promoted field through embedded structs: walk the path
		cur := base
		for _, step := range emb {
			cur, err = ex.selectField(cur, step, env)
			if err != nil {
				return Val{}, err
			}
		}
		return cur, nil
	}
	return ex.selectField(base, idx, env)
}

// findField returns the index of field name in s, or a path through embedded fields.
func findField(s *types.Struct, name string) (int, []int) {
	for i := 0; i < s.NumFields(); i++ {
		if s.Field(i).Name() == name {
			return i, nil
		}
	}
	if nn := renamedField(s, name); nn != "" {
		for i := 0; i < s.NumFields(); i++ {
			if s.Field(i).Name() == nn {
				return i, nil
			}
		}
	}
	for i := 0; i < s.NumFields(); i++ {
		f := s.Field(i)
		if !f.Embedded() {
			continue
		}
		ft := f.Type()
		if pt, ok := ft.Underlying().(*types.Pointer); ok {
			ft = pt.Elem()
		}
		if es := structOf(ft); es != nil {
			if j, p := findField(es, name); j >= 0 {
				if p != nil {
					return j, append([]int{i}, p...)
				}
				return j, []int{i, j}
			}
		}
	}
	return -1, nil
}

func (ex *Executor) selectField(base Val, idx int, env *SpecEnv) (Val, error) {
	ty := base.Ty
	if pt, ok := ty.Underlying().(*types.Pointer); ok {
		owner := pt.Elem()
		f := structOf(owner).Field(idx)
		var ref *Term
		if base.P != nil && base.P.Kind == PElem && isStruct(owner) && env.st != nil {
			// pointer to a struct stored in a slice element (p := &s[i]): read it the way the code does
			sv := ex.load(env.st, Val{P: base.P, Ty: ty})
			sv.Ty = owner
			return ex.structField(sv, idx), nil
		}
		if base.P != nil && base.P.Kind == PField {
			bf := structOf(base.P.Owner).Field(base.P.Field)
			ref = ex.subRef(env.st, base.P.Owner, bf.Name(), base.P.Base)
		} else if base.T == nil && base.P != nil && (base.P.Kind == PCell || base.P.Kind == PRef) {
			ref = base.P.Base // pointer to a struct that lives in a local cell
		} else {
			ref = base.T
		}
		if ref == nil {
			return Val{}, fmt.Errorf("field %s of a pointer without a value", f.Name())
		}
		if isStruct(f.Type()) {
			// embedded struct by value: address it
			return Val{T: ex.subRef(env.st, owner, f.Name(), ref), Ty: types.NewPointer(f.Type())}, nil
		}
		t := Select(env.heapArr(fieldMapName(owner, f.Name()), arrayOf(sortOf(f.Type()))), ref)
		v := Val{T: t, Ty: f.Type()}
		return ex.recover(v), nil
	}
	if isStruct(ty) {
		return ex.structField(base, idx), nil
	}
	return Val{}, fmt.Errorf("field selection on %s", ty)
}

func (ex *Executor) evalIndex(e *SExpr, env *SpecEnv) (Val, error) {
	if env.snaps != nil && e.Args[0].Kind == "ident" && e.Args[1].Kind == "num" {
		if sn, ok := env.snaps[e.Args[0].Name]; ok {
			if k, err := strconv.Atoi(e.Args[1].Num); err == nil && k >= 0 && k < len(sn) {
				return ex.recover(sn[k]), nil
			}
		}
	}
	base, err := ex.evalSpec(e.Args[0], env)
	if err != nil {
		return Val{}, err
	}
	idx, err := ex.evalSpec(e.Args[1], env)
	if err != nil {
		return Val{}, err
	}
	if base.Tab != nil {
		if !idx.T.IsNum() || !idx.T.Num.IsInt64() {
			return Val{}, fmt.Errorf("table index %s is not a row number", idx.T)
		}
		if idx.T.Num.Int64() < 0 || int(idx.T.Num.Int64()) >= len(base.Tab.Rows) {
			// out of range: only reachable under a false guard; an unconstrained row
			row := make([]Val, len(base.Tab.Fields))
			for k := range row {
				row[k] = Val{T: Fresh("oob", SInt)}
			}
			return Val{Fs: row, Ty: base.Tab.Elem}, nil
		}
		return Val{Fs: base.Tab.Rows[idx.T.Num.Int64()], Ty: base.Tab.Elem}, nil
	}
	if base.Ty == nil {
		return Val{}, fmt.Errorf("index on untyped %s", e)
	}
	switch bt := base.Ty.Underlying().(type) {
	case *types.Slice:
		srt := sortOf(bt.Elem())
		earr := env.heapArr(elemNameT(bt.Elem()), arrayOf(arrayOf(srt)))
		t := Select(Select(earr, ex.sarr(base.T)), Add(ex.soff(base.T), idx.T))
		return ex.recover(Val{T: t, Ty: bt.Elem()}), nil
	case *types.Map:
		srt := sortOf(bt.Elem())
		t := Select(Select(env.heapArr("M.val."+string(srt), arrayOf(arrayOf(srt))), base.T), idx.T)
		return ex.recover(Val{T: t, Ty: bt.Elem()}), nil
	case *types.Basic:
		if isString(base.Ty) {
			return ex.strByte(env.st, base.T, idx.T), nil
		}
	}
	return Val{}, fmt.Errorf("cannot index %s", base.Ty)
}

func (ex *Executor) evalCallSpec(e *SExpr, env *SpecEnv) (Val, error) {
	argv := func(i int) (Val, error) {
		if i >= len(e.Args) {
			return Val{}, fmt.Errorf("%s: missing argument %d", e.Name, i)
		}
		return ex.evalSpec(e.Args[i], env)
	}
	switch e.Name {
	case "old":
		c := *env
		c.inOld = true
		return ex.evalSpec(e.Args[0], &c)
	case "atcall":
		// atcall(x, e): e evaluated in the state in which the call whose argument x was bound (bind_x) started
		if len(e.Args) != 2 || e.Args[0].Kind != "ident" {
			return Val{}, fmt.Errorf("atcall(binder, expr)")
		}
		h, ok := env.bindHeap[e.Args[0].Name]
		if !ok {
			return Val{}, fmt.Errorf("atcall: %s is not an argument binder of a call event", e.Args[0].Name)
		}
		c := *env
		c.heapOverride = h
		return ex.evalSpec(e.Args[1], &c)
	case "pre":
		// value at the start of the current segment (function entry or loop head)
		c := *env
		c.inPre = true
		if env.st != nil && env.st.segHeap != nil {
			c.heapOverride = env.st.segHeap
		}
		return ex.evalSpec(e.Args[0], &c)
	case "len", "cap":
		a, err := argv(0)
		if err != nil {
			return Val{}, err
		}
		if a.Tab != nil {
			return specInt(Num(int64(len(a.Tab.Rows)))), nil
		}
		if a.Ty != nil && isString(a.Ty) {
			return specInt(strLen(a.T)), nil
		}
		if a.T == nil {
			return Val{}, fmt.Errorf("%s of %s: no value", e.Name, e.Args[0])
		}
		if e.Name == "len" {
			return specInt(ex.slen(a.T)), nil
		}
		return specInt(ex.scap(a.T)), nil
	case "big":
		a, err := argv(0)
		if err != nil {
			return Val{}, err
		}
		return specInt(Select(env.heapArr("bigval", SAII), a.T)), nil
	case "fresh":
		a, err := argv(0)
		if err != nil {
			return Val{}, err
		}
		if env.oldAlloc == nil {
			return Val{}, fmt.Errorf("fresh() outside a postcondition")
		}
		return specBool(And(Gt(a.T, env.oldAlloc), Le(a.T, env.st.alloc))), nil
	case "newobj":
		// allocated during the current segment (since function entry or the last loop head): a per-iteration object
		a, err := argv(0)
		if err != nil {
			return Val{}, err
		}
		lo := env.oldAlloc
		if env.st != nil && env.st.segAlloc != nil {
			lo = env.st.segAlloc
		}
		if lo == nil {
			return Val{}, fmt.Errorf("newobj() outside a function body")
		}
		return specBool(And(Gt(a.T, lo), Le(a.T, env.st.alloc))), nil
	case "addr":
		// address of a struct-typed field of a pointed-to struct (also through embedded structs): addr(p.f)
		if len(e.Args) != 1 || e.Args[0].Kind != "sel" {
			return Val{}, fmt.Errorf("addr needs a field selector")
		}
		base, err := ex.evalSpec(e.Args[0].Args[0], env)
		if err != nil {
			return Val{}, err
		}
		if base.Ty == nil {
			return Val{}, fmt.Errorf("addr: untyped base")
		}
		pt, ok := base.Ty.Underlying().(*types.Pointer)
		if !ok {
			return Val{}, fmt.Errorf("addr: base of %s is not a pointer", e.Args[0])
		}
		owner := pt.Elem()
		ref := base.T
		s := structOf(owner)
		if s == nil {
			return Val{}, fmt.Errorf("addr: base does not point to a struct")
		}
		idx, emb := findField(s, e.Args[0].Name)
		if idx < 0 {
			return Val{}, fmt.Errorf("addr: no field %s", e.Args[0].Name)
		}
		path := emb
		if path == nil {
			path = []int{idx}
		}
		for k, step := range path {
			f := structOf(owner).Field(step)
			if !isStruct(f.Type()) {
				if k == len(path)-1 {
					// pointer to a scalar field: the same term the executor uses for &x.f
					return Val{T: App("faddr."+typeName(owner)+"."+f.Name(), SInt, ref), Ty: types.NewPointer(f.Type())}, nil
				}
				return Val{}, fmt.Errorf("addr: field %s is not a struct", f.Name())
			}
			ref = ex.subRef(env.st, owner, f.Name(), ref)
			owner = f.Type()
		}
		return Val{T: ref, Ty: types.NewPointer(owner)}, nil
	case "allocated":
		a, err := argv(0)
		if err != nil {
			return Val{}, err
		}
		return specBool(And(Gt(a.T, Num(0)), Le(a.T, env.st.alloc))), nil
	case "distinct":
		var ts []*Term
		for i := range e.Args {
			a, err := argv(i)
			if err != nil {
				return Val{}, err
			}
			ts = append(ts, a.T)
		}
		return specBool(Distinct(ts...)), nil
	case "isptr", "istype":
		// dynamic type of interface value x is (*)T
		a, err := argv(0)
		if err != nil {
			return Val{}, err
		}
		ty, err := ex.resolveType(typeText(e.Args[1]), env)
		if err != nil {
			return Val{}, err
		}
		if e.Name == "isptr" {
			ty = types.NewPointer(ty)
		}
		return specBool(And(Neq(a.T, Num(0)), Eq(ex.ifaceTag(a.T), typeTag(ty)))), nil
	case "asptr", "astype":
		a, err := argv(0)
		if err != nil {
			return Val{}, err
		}
		ty, err := ex.resolveType(typeText(e.Args[1]), env)
		if err != nil {
			return Val{}, err
		}
		if e.Name == "asptr" {
			ty = types.NewPointer(ty)
		}
		return ex.ifacePayload(env.st, a.T, ty), nil
	case "cast":
		// reinterpret the static type of a value: cast(x, T)
		a, err := argv(0)
		if err != nil {
			return Val{}, err
		}
		ty, err := ex.resolveType(typeText(e.Args[1]), env)
		if err != nil {
			return Val{}, err
		}
		a.Ty = ty
		a.P = nil
		return a, nil
	case "asiface":
		// the interface value a Go conversion of x to an interface type yields
		a, err := argv(0)
		if err != nil {
			return Val{}, err
		}
		if a.Ty == nil {
			return Val{}, fmt.Errorf("asiface of untyped value")
		}
		return ex.mkIface(env.st, a, types.Universe.Lookup("error").Type()), nil
	case "implements":
		a, err := argv(0)
		if err != nil {
			return Val{}, err
		}
		ty, err := ex.resolveType(typeText(e.Args[1]), env)
		if err != nil {
			return Val{}, err
		}
		return specBool(And(Neq(a.T, Num(0)), App("implements."+typeName(ty), SBool, ex.ifaceTag(a.T)))), nil
	case "isnil":
		a, err := argv(0)
		if err != nil {
			return Val{}, err
		}
		return specBool(Eq(a.T, Num(0))), nil
	case "ite":
		c, err := argv(0)
		if err != nil {
			return Val{}, err
		}
		a, err := argv(1)
		if err != nil {
			return Val{}, err
		}
		b, err := argv(2)
		if err != nil {
			return Val{}, err
		}
		return Val{T: Ite(c.T, a.T, b.T), Ty: a.Ty}, nil
	case "pow2":
		a, err := argv(0)
		if err != nil {
			return Val{}, err
		}
		if a.T.IsNum() && a.T.Num.IsInt64() {
			return specInt(NumB(pow2(uint(a.T.Num.Int64())))), nil
		}
		return specInt(ex.pow2Term(env.st, a.T)), nil
	case "mapin":
		m, err := argv(0)
		if err != nil {
			return Val{}, err
		}
		k, err := argv(1)
		if err != nil {
			return Val{}, err
		}
		return specBool(Select(Select(env.heapArr("M.dom", SAAIB), m.T), k.T)), nil
	case "closureof":
		// closureof(v, "name$k"): the function value v is a closure of the named function literal (or the named function)
		a, err := argv(0)
		if err != nil {
			return Val{}, err
		}
		if len(e.Args) != 2 || e.Args[1].Kind != "str" {
			return Val{}, fmt.Errorf("closureof(v, \"function name\")")
		}
		a = ex.recover(a)
		if a.Fn == nil || a.Fn.Fn == nil {
			if debugRows {
				fmt.Printf("DEBUG closureof: %s evaluates to %v (not a known closure)\n", e.Args[0], a.T)
			}
			if env.assuming {
				return Val{}, fmt.Errorf("closureof: %s is not a known closure", e.Args[0])
			}
			return specBool(tFalse), nil
		}
		n := funcKeyOrName(a.Fn.Fn)
		return specBool(Bool(nameMatches(n, e.Args[1].Name) || strings.HasSuffix(n, "."+e.Args[1].Name))), nil
	case "capt":
		// capt(v, "x"): the value the closure v captured for its free variable x (read at the current state)
		a, err := argv(0)
		if err != nil {
			return Val{}, err
		}
		if len(e.Args) != 2 || e.Args[1].Kind != "str" {
			return Val{}, fmt.Errorf("capt(v, \"variable name\")")
		}
		a = ex.recover(a)
		if a.Fn == nil || a.Fn.Fn == nil {
			return Val{}, fmt.Errorf("capt: %s is not a known closure (%v)", e.Args[0], a.T)
		}
		for i, fv := range a.Fn.Fn.FreeVars {
			if fv.Name() == e.Args[1].Name && i < len(a.Fn.Bind) {
				b := a.Fn.Bind[i]
				if b.Ty == nil {
					b.Ty = fv.Type()
				}
				if env.heapOverride != nil {
					if p := ex.ptrOf(b); p.Kind == PCell && !isStruct(p.Elem) {
						srt := sortOf(p.Elem)
						return ex.recover(Val{T: Select(heapGetIn(env.heapOverride, cellName(srt), arrayOf(srt)), p.Base), Ty: p.Elem}), nil
					}
				}
				return ex.load(env.st, b), nil
			}
		}
		return Val{}, fmt.Errorf("capt: closure does not capture %s", e.Args[1].Name)
	case "strbyte":
		a, err := argv(0)
		if err != nil {
			return Val{}, err
		}
		i, err := argv(1)
		if err != nil {
			return Val{}, err
		}
		return ex.strByte(env.st, a.T, i.T), nil
	case "backing":
		// the backing array of a slice (a reference)
		a, err := argv(0)
		if err != nil {
			return Val{}, err
		}
		return specInt(ex.sarr(a.T)), nil
	case "substr":
		// s[lo:hi] of a string
		a, err := argv(0)
		if err != nil {
			return Val{}, err
		}
		lo, err := argv(1)
		if err != nil {
			return Val{}, err
		}
		hi, err := argv(2)
		if err != nil {
			return Val{}, err
		}
		return Val{T: App("substr", SInt, a.T, lo.T, hi.T), Ty: types.Typ[types.String]}, nil
	case "mapget":
		// value stored under key k (Int-sorted values: pointers, slices, strings, numbers)
		m, err := argv(0)
		if err != nil {
			return Val{}, err
		}
		k, err := argv(1)
		if err != nil {
			return Val{}, err
		}
		return specInt(Select(Select(env.heapArr("M.val.Int", SAAII), m.T), k.T)), nil
	case "content":
		a, err := argv(0)
		if err != nil {
			return Val{}, err
		}
		earr := env.heapArr(byteElems, SAAII)
		return specInt(App("slicecontent", SInt, Select(earr, ex.sarr(a.T)), ex.soff(a.T), ex.slen(a.T))), nil
	case "cancelled":
		return specBool(Bool(env.st.cancelled)), nil
	case "chancap":
		// capacity of a channel (fixed when it is made)
		a, err := argv(0)
		if err != nil {
			return Val{}, err
		}
		return specInt(App("chancap", SInt, a.T)), nil
	case "bitand":
		// a & b, modelled exactly as the executor models the Go operator (per bit for narrow unsigned types with a
		// constant operand, an uninterpreted function otherwise)
		a, err := argv(0)
		if err != nil {
			return Val{}, err
		}
		b, err := argv(1)
		if err != nil {
			return Val{}, err
		}
		ty := a.Ty
		if ty == nil || !isInteger(ty) {
			ty = types.Typ[types.Uint64]
		}
		return Val{T: ex.bitop(env.st, token.AND, a.T, b.T, ty), Ty: ty}, nil
	case "strlen":
		a, err := argv(0)
		if err != nil {
			return Val{}, err
		}
		return specInt(strLen(a.T)), nil
	}
	// predicates
	p, ok := ex.S.Preds[env.pkgRel+"::"+e.Name] // predicates are scoped to the package of their contract file
	if !ok {
		p, ok = ex.S.Preds[e.Name]
	}
	if ok {
		if len(p.Params) != len(e.Args) {
			return Val{}, fmt.Errorf("predicate %s: arity", e.Name)
		}
		if env.depth > 20 {
			return Val{}, fmt.Errorf("predicate expansion too deep")
		}
		c := env.child()
		c.depth = env.depth + 1
		c.pkgRel = p.Pkg
		for i, prm := range p.Params {
			a, err := argv(i)
			if err != nil {
				return Val{}, err
			}
			if prm.Type != "" && prm.Type != "int" && prm.Type != "bool" {
				if ty, err := ex.resolveType(prm.Type, c); err == nil {
					a.Ty = ty
				} else {
					return Val{}, err
				}
			}
			c.vars[prm.Name] = a
		}
		c.fr = nil
		return ex.evalSpec(p.Body, c)
	}
	// spec functions
	if sf, ok := ex.S.SpecFns[e.Name]; ok {
		var ts []*Term
		for i := range e.Args {
			a, err := argv(i)
			if err != nil {
				return Val{}, err
			}
			at := a.T
			if at == nil {
				at = ex.asTerm(env.st, a)
			}
			ts = append(ts, at)
		}
		if len(ts) != len(sf.Params) {
			return Val{}, fmt.Errorf("spec function %s: arity", e.Name)
		}
		if sf.Def != nil {
			c := env.child()
			c.fr = nil
			c.pkgRel = sf.Pkg
			for i, prm := range sf.Params {
				c.vars[prm.Name] = Val{T: ts[i]}
			}
			return ex.evalSpec(sf.Def, c)
		}
		srt := SInt
		if sf.Ret == "bool" {
			srt = SBool
		}
		return Val{T: App("spec."+sf.Name, srt, ts...)}, nil
	}
	// pure external functions used as spec functions: same symbol as applyContract uses
	return Val{}, fmt.Errorf("unknown function %s in specification", e.Name)
}

func typeText(e *SExpr) string {
	switch e.Kind {
	case "ident":
		return e.Name
	case "sel":
		return typeText(e.Args[0]) + "." + e.Name
	case "str":
		return e.Name
	}
	return e.String()
}

// evalLoc: a modifies location -> (heap map name, index term, element sort)
func (ex *Executor) evalLoc(e *SExpr, env *SpecEnv) (string, *Term, Sort, error) {
	if e.Kind == "call" && e.Name == "big" {
		a, err := ex.evalSpec(e.Args[0], env)
		if err != nil {
			return "", nil, "", err
		}
		return "bigval", a.T, SInt, nil
	}
	if e.Kind == "sel" {
		base, err := ex.evalSpec(e.Args[0], env)
		if err != nil {
			return "", nil, "", err
		}
		if base.Ty == nil {
			return "", nil, "", fmt.Errorf("modifies %s: untyped base", e)
		}
		pt, ok := base.Ty.Underlying().(*types.Pointer)
		if !ok {
			return "", nil, "", fmt.Errorf("modifies %s: base is not a pointer", e)
		}
		owner := pt.Elem()
		if g := ex.ghostField(owner, e.Name); g != nil {
			srt := SInt
			if g.Sort == "bool" {
				srt = SBool
			}
			return fieldMapName(owner, g.Field), base.T, srt, nil
		}
		idx, emb := findField(structOf(owner), e.Name)
		if idx < 0 {
			return "", nil, "", fmt.Errorf("modifies %s: no such field", e)
		}
		ref := base.T
		if emb != nil {
			// promoted field: walk through the embedded structs to the one that owns it
			for _, step := range emb[:len(emb)-1] {
				ef := structOf(owner).Field(step)
				if !isStruct(ef.Type()) {
					return "", nil, "", fmt.Errorf("modifies %s: promoted through a pointer", e)
				}
				ref = ex.subRef(env.st, owner, ef.Name(), ref)
				owner = ef.Type()
			}
			idx = emb[len(emb)-1]
		}
		f := structOf(owner).Field(idx)
		return fieldMapName(owner, f.Name()), ref, sortOf(f.Type()), nil
	}
	if e.Kind == "index" {
		base, err := ex.evalSpec(e.Args[0], env)
		if err != nil {
			return "", nil, "", err
		}
		if sl, ok := base.Ty.Underlying().(*types.Slice); ok {
			// whole backing array of the slice
			srt := sortOf(sl.Elem())
			return elemNameT(sl.Elem()), ex.sarr(base.T), arrayOf(srt), nil
		}
	}
	return "", nil, "", fmt.Errorf("unsupported modifies location %s", e)
}

// ---------------------------------------------------------------------------------------------
// anchors: ghost statements, lemma uses, assertions

func (ex *Executor) runAnchors(st *State, fr *Frame, kind, callee string, ord int, when string) {
	if fr.spec == nil {
		return
	}
	for _, a := range fr.spec.Anchors {
		if a.Kind != kind {
			continue
		}
		switch kind {
		case "call":
			if a.When != when || a.Ord != ord || !nameMatches(callee, a.Callee) {
				continue
			}
		case "return":
			if a.Ord >= 0 && a.Ord != ord {
				continue
			}
		}
		a.used = true
		for _, g := range a.Stmts {
			ex.runGhost(st, fr, g)
		}
	}
}

func (ex *Executor) runGhost(st *State, fr *Frame, g *GhostStmt) {
	env := ex.envFor(st, fr)
	if fr.unit && len(fr.results) > 0 {
		env.bindResults(fr.fn, fr.results)
	}
	cond := tTrue
	if g.Cond != nil {
		c, err := ex.evalSpec(g.Cond, env)
		if err != nil {
			ex.errf("%s: ghost guard %q: %v", ex.unitKey, g.Text, err)
			return
		}
		cond = c.T
	}
	switch g.Kind {
	case "ghost":
		name, idx, srt, err := ex.evalLoc(g.LHS, env)
		if err != nil {
			ex.errf("%s: ghost %q: %v", ex.unitKey, g.Text, err)
			return
		}
		// only ghost fields may be assigned by ghost code
		if g.LHS.Kind != "sel" {
			ex.errf("%s: ghost assignment to non-ghost location %q", ex.unitKey, g.Text)
			return
		}
		if base, err := ex.evalSpec(g.LHS.Args[0], env); err == nil {
			if pt, ok := base.Ty.Underlying().(*types.Pointer); !ok || ex.ghostField(pt.Elem(), g.LHS.Name) == nil {
				ex.errf("%s: ghost assignment to real field %q", ex.unitKey, g.Text)
				return
			}
		}
		v, err := ex.evalSpec(g.RHS, env)
		if err != nil {
			ex.errf("%s: ghost %q: %v", ex.unitKey, g.Text, err)
			return
		}
		arr := st.heapGet(name, arrayOf(srt))
		st.heapSet(name, Store(arr, idx, Ite(cond, v.T, Select(arr, idx))))
	case "assert":
		v, err := ex.evalSpec(g.RHS, env)
		if err != nil {
			ex.errf("%s: assert %q: %v", ex.unitKey, g.Text, err)
			return
		}
		ex.addObl(st, "assert", g.Text, Implies(cond, v.T), g.Text, g.Tags)
		st.assume(Implies(cond, v.T))
	case "assume":
		v, err := ex.evalSpec(g.RHS, env)
		if err != nil {
			ex.errf("%s: assume %q: %v", ex.unitKey, g.Text, err)
			return
		}
		ex.Assumed["ASSUME in "+ex.unitKey+": "+g.Text] = true
		st.assume(Implies(cond, v.T))
	case "use":
		lem := ex.S.Lemmas[g.Call.Name]
		if lem == nil {
			ex.errf("%s: unknown lemma %s", ex.unitKey, g.Call.Name)
			return
		}
		if len(lem.Params) != len(g.Call.Args) {
			ex.errf("%s: lemma %s arity", ex.unitKey, lem.Name)
			return
		}
		c := env.child()
		c.fr = nil
		c.pkgRel = lem.Pkg
		for i, p := range lem.Params {
			a, err := ex.evalSpec(g.Call.Args[i], env)
			if err != nil {
				ex.errf("%s: use %q: %v", ex.unitKey, g.Text, err)
				return
			}
			c.vars[p.Name] = Val{T: a.T}
		}
		var hyps []*Term
		for i, h := range lem.Requires {
			v, err := ex.evalSpec(h, c)
			if err != nil {
				ex.errf("%s: lemma %s requires: %v", ex.unitKey, lem.Name, err)
				return
			}
			// the instance "hypotheses ==> conclusion" is assumed as a whole, so no obligation is needed for soundness
			_ = i
			hyps = append(hyps, v.T)
		}
		for _, cl := range lem.Ensures {
			v, err := ex.evalSpec(cl, c)
			if err != nil {
				ex.errf("%s: lemma %s ensures: %v", ex.unitKey, lem.Name, err)
				return
			}
			st.assume(Implies(And(append([]*Term{cond}, hyps...)...), v.T))
		}
		ex.Assumed["lemma "+lem.Name+" ("+lem.Just+": proved in /verif/lemmas/lean/Orbit.lean, see coverage.lemma_layer)"] = true
	}
}

var _ = strconv.Itoa

// VerifyLemma: a lemma justified by "smt" is proved from explicit instances of other lemmas.
func (ex *Executor) VerifyLemma(lem *Lemma) {
	ex.unitKey = lem.Pkg + ".lemma." + lem.Name
	ex.unitProps = lem.Props
	ex.unitSpec = nil
	st := &State{heap: map[string]*Term{}, alloc: Num(0)}
	env := &SpecEnv{ex: ex, st: st, vars: map[string]Val{}, pkgRel: lem.Pkg}
	for _, p := range lem.Params {
		s := SInt
		if p.Type == "bool" {
			s = SBool
		}
		env.vars[p.Name] = Val{T: Sym("lp."+lem.Name+"."+p.Name, s)}
	}
	for _, h := range lem.Requires {
		v, err := ex.evalSpec(h, env)
		if err != nil {
			ex.errf("lemma %s: %v", lem.Name, err)
			return
		}
		st.assume(v.T)
	}
	ex.Obls = append(ex.Obls, &Obligation{Name: ex.oblName(nil, "cover", "requires"), Kind: "cover", Func: ex.unitKey, Props: lem.Props,
		Facts: append([]*Term(nil), st.facts...), Cover: true, Text: "lemma hypotheses satisfiable"})
	for _, g := range lem.Proof {
		if g.Kind != "use" {
			ex.errf("lemma %s: only `use` is allowed in a proof", lem.Name)
			return
		}
		other := ex.S.Lemmas[g.Call.Name]
		if other == nil || other == lem {
			ex.errf("lemma %s: bad use %s", lem.Name, g.Text)
			return
		}
		c := env.child()
		c.pkgRel = other.Pkg
		c.vars = map[string]Val{}
		for i, p := range other.Params {
			a, err := ex.evalSpec(g.Call.Args[i], env)
			if err != nil {
				ex.errf("lemma %s: %s: %v", lem.Name, g.Text, err)
				return
			}
			c.vars[p.Name] = Val{T: a.T}
		}
		var hyps []*Term
		for _, h := range other.Requires {
			v, err := ex.evalSpec(h, c)
			if err != nil {
				ex.errf("lemma %s: %v", lem.Name, err)
				return
			}
			hyps = append(hyps, v.T)
		}
		for _, cl := range other.Ensures {
			v, err := ex.evalSpec(cl, c)
			if err != nil {
				ex.errf("lemma %s: %v", lem.Name, err)
				return
			}
			st.assume(Implies(And(hyps...), v.T))
		}
		ex.Assumed["lemma "+other.Name+" ("+other.Just+": proved in /verif/lemmas/lean/Orbit.lean, see coverage.lemma_layer)"] = true
	}
	for i, cl := range lem.Ensures {
		v, err := ex.evalSpec(cl, env)
		if err != nil {
			ex.errf("lemma %s: %v", lem.Name, err)
			return
		}
		ex.addObl(st, "lemma", fmt.Sprintf("%s#%d", lem.Name, i), v.T, cl.String(), nil)
	}
}

// allocNamed: the unique Alloc of fn that holds source variable `name` (nil if none or ambiguous)
func allocNamed(fn *ssa.Function, name string) *ssa.Alloc {
	var found *ssa.Alloc
	for _, b := range fn.Blocks {
		for _, ins := range b.Instrs {
			if a, ok := ins.(*ssa.Alloc); ok && a.Comment == name {
				if found != nil {
					return nil
				}
				found = a
			}
		}
	}
	return found
}
