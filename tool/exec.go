package main

import (
	"fmt"
	"go/constant"
	"go/token"
	"go/types"
	"math/big"
	"sort"
	"strings"

	"golang.org/x/tools/go/ssa"
)

type Obligation struct {
	Name     string
	Kind     string // pre post inv-init inv-step frame seg safe lemma-hyp table assert cover structural
	Func     string
	Props    []string
	Facts    []*Term
	Goal     *Term // nil for structural obligations
	Text     string
	Path     string
	Structural bool
	StructOK   bool
	StructMsg  string
	Cover    bool // satisfiable expected (vacuity guard)
	// results
	Status   string // discharged failed unknown
	Solver   string
	Ms       int64
	Model    string
	Output   string
	Known    string // known finding id if matched
	Group    string // cover group: satisfied if any member is satisfiable
	// replay support (obligations generated at the exit of the unit)
	Rets    []Val
	Heap    map[string]*Term
	AtExit  bool
	NEvents int
	// bounded components (failing run: the test and its output become the replay)
	BoundedTest string
	BoundedOut  string
}

type Executor struct {
	P       *Program
	S       *Specs
	Obls    []*Obligation
	Errs    []string // undecided / unmodelled situations
	Notes   map[string]bool
	Assumed map[string]bool // ext contracts / trusted lemmas / havocked calls actually used
	unitKey string
	unitSpec *FuncSpec
	unitProps []string
	work    []*State
	maxDepth int
	pathCount int
	rowHits map[*Row]bool
	sliceInfo map[string]*sliceInfo
	ifaceInfo map[string]*ifaceInfo
	cloInfo   map[string]*FnVal
	writtenMemo map[*ssa.Function]map[string]bool
	safety  bool
	callBinds  []Val // captured-variable bindings of the closure being called modularly
	localsMemo map[*ssa.Function][]localDecl
	anchorLost bool // a contract refers to a source name the function no longer has
}

type sliceInfo struct{ arr, off, len, cap *Term }
type ifaceInfo struct {
	tag     *Term
	ty      types.Type
	payload Val
}

func NewExecutor(p *Program, s *Specs) *Executor {
	return &Executor{P: p, S: s, Notes: map[string]bool{}, Assumed: map[string]bool{}, maxDepth: 8,
		rowHits: map[*Row]bool{}, sliceInfo: map[string]*sliceInfo{}, ifaceInfo: map[string]*ifaceInfo{}, cloInfo: map[string]*FnVal{},
		writtenMemo: map[*ssa.Function]map[string]bool{}, safety: true}
}

func (ex *Executor) errf(format string, a ...interface{}) {
	msg := fmt.Sprintf(format, a...)
	// a contract that names something the function no longer has (a renamed or removed local, a loop or call site
	// that moved into a helper) lost its anchor: the unit is undecided, its obligations are not violations
	if strings.HasPrefix(msg, "anchor-missing") && !strings.Contains(msg, "never reached") {
		// (an anchored call that is never reached is different: the code stopped making a call the contract relies on -
		// the obligations that then fail are reported)
		ex.anchorLost = true
	} else if nm := unknownIdent(msg); nm != "" && ex.P != nil {
		if fn := ex.P.Funcs[ex.unitKey]; fn != nil && !hasSourceName(fn, nm) {
			ex.anchorLost = true
			msg = "anchor-missing " + ex.unitKey + ": " + msg
		}
	}
	for _, e := range ex.Errs {
		if e == msg {
			return
		}
	}
	ex.Errs = append(ex.Errs, msg)
}

func (ex *Executor) note(format string, a ...interface{}) {
	ex.Notes[fmt.Sprintf(format, a...)] = true
}

func (ex *Executor) addObl(st *State, kind, detail string, goal *Term, text string, tags []string) {
	if st != nil && st.noObl > 0 {
		return
	}
	if goal.IsTrue() {
		// trivially true after simplification: still counted (discharged by the generator's simplifier)
		ex.Obls = append(ex.Obls, &Obligation{Name: ex.oblName(st, kind, detail), Kind: kind, Func: ex.unitKey, Props: ex.propsFor(tags),
			Text: text, Path: strings.Join(st.path, ""), Structural: true, StructOK: true, StructMsg: "goal simplified to true by the generator"})
		return
	}
	o := &Obligation{Name: ex.oblName(st, kind, detail), Kind: kind, Func: ex.unitKey, Props: ex.propsFor(tags),
		Facts: append([]*Term(nil), st.facts...), Goal: goal, Text: text, Path: strings.Join(st.path, "")}
	if kind == "safe" {
		o.Heap = copyHeap(st.heap) // replay templates rebuild the state at the obligation from it
	}
	ex.Obls = append(ex.Obls, o)
}

func (ex *Executor) addStructural(st *State, kind, detail string, ok bool, msg string, tags []string) {
	path := ""
	if st != nil {
		path = strings.Join(st.path, "")
	}
	ex.Obls = append(ex.Obls, &Obligation{Name: ex.oblName(st, kind, detail), Kind: kind, Func: ex.unitKey, Props: ex.propsFor(tags),
		Structural: true, StructOK: ok, StructMsg: msg, Text: msg, Path: path})
}

func (ex *Executor) propsFor(tags []string) []string {
	if len(tags) > 0 {
		return tags
	}
	return ex.unitProps
}

func (ex *Executor) oblName(st *State, kind, detail string) string {
	p := ""
	if st != nil {
		p = "@" + strings.Join(st.path, "")
	}
	return fmt.Sprintf("%s#%s[%s]%s", ex.unitKey, kind, detail, p)
}

// ---------------------------------------------------------------------------------------------
// unit verification

func (ex *Executor) VerifyUnit(key string, spec *FuncSpec) {
	fn := ex.P.Funcs[key]
	ex.unitKey = key
	ex.unitSpec = spec
	ex.unitProps = spec.Props
	if fn == nil {
		ex.errf("anchor-missing %s: no such function in /repo", key)
		return
	}
	if len(fn.Blocks) == 0 {
		ex.errf("%s has no body", key)
		return
	}
	nloops := 0
	for _, b := range fn.Blocks {
		if isLoopHead(b) {
			nloops++
		}
	}
	for k := range spec.Loops {
		if k >= nloops {
			ex.errf("anchor-missing %s: the contract speaks about loop %d, the function has %d loop(s) (the loop moved into a helper or was removed)", key, k, nloops)
		}
	}
	// side condition of reasoning about one goroutine at a time: no write to a captured variable another goroutine shares
	if fn.Parent() != nil {
		ws := interferingWrites(ex.P, fn)
		for i, w := range ws {
			ex.addStructural(nil, "no-interference", fmt.Sprint(i), false, w, nil)
		}
		if len(ws) == 0 {
			ex.addStructural(nil, "no-interference", "captured variables", true, "the goroutine writes no captured variable that another goroutine can reach", nil)
		}
	}
	st := &State{heap: map[string]*Term{}, globals: map[*ssa.Global]Val{}, alloc: Sym("alloc@0", SInt), segStart: "entry", segHeap: map[string]*Term{}, birth: map[string]*Term{}, segSpec: spec}
	st.assume(Ge(st.alloc, Num(0)))
	fr := ex.newFrame(fn, spec, 0)
	fr.unit = true
	// parameters
	for _, p := range fn.Params {
		v := ex.symbolicParam(st, p.Name(), p.Type())
		fr.vals[p] = v
		fr.params[p.Name()] = v
		fr.locals[p.Name()] = localRef{v: v}
	}
	var fvTerms []*Term
	for _, fv := range fn.FreeVars {
		// free variables are pointers to the captured variables
		v := ex.symbolicParam(st, "fv_"+fv.Name(), fv.Type())
		fr.vals[fv] = v
		fr.locals[fv.Name()] = localRef{v: v, isAddr: true}
		fvTerms = append(fvTerms, v.T)
	}
	if len(fvTerms) > 1 {
		st.assume(Distinct(fvTerms...))
	}
	st.frames = []*Frame{fr}
	if fn.Synthetic == "package initializer" && fn.Pkg != nil {
		// the runtime runs a package initializer once, with its guard still false
		if g, ok := fn.Pkg.Members["init$guard"].(*ssa.Global); ok {
			st.globals[g] = Val{T: tFalse, Ty: types.Typ[types.Bool]}
		}
	}
	fr.oldHeap = copyHeap(st.heap)
	fr.oldAlloc = st.alloc
	// requires
	env := ex.envFor(st, fr)
	for _, c := range spec.Requires {
		v, err := ex.evalSpec(c.Expr, env)
		if err != nil {
			ex.errf("%s: requires %q: %v", key, c.Text, err)
			return
		}
		st.assume(v.T)
	}
	// heap symbols touched by requires must be part of the old snapshot
	fr.oldHeap = copyHeap(st.heap)
	// vacuity guard: the precondition must be satisfiable
	ex.Obls = append(ex.Obls, &Obligation{Name: ex.oblName(nil, "cover", "requires"), Kind: "cover", Func: key, Props: spec.Props,
		Facts: append([]*Term(nil), st.facts...), Cover: true, Text: "precondition satisfiable"})
	ex.runAnchors(st, fr, "entry", "", 0, "after")
	fr.blk = fn.Blocks[0]
	ex.work = []*State{st}
	ex.drain()
	// rows never realised by any path: vacuity / dead row report
	ex.checkRowCoverage(spec)
	for _, a := range spec.Anchors {
		if !a.used {
			ex.errf("anchor-missing %s: anchor %s %s#%d never reached", key, a.Kind, a.Callee, a.Ord)
		}
	}
}

func copyHeap(h map[string]*Term) map[string]*Term {
	n := make(map[string]*Term, len(h))
	for k, v := range h {
		n[k] = v
	}
	return n
}

func (ex *Executor) newFrame(fn *ssa.Function, spec *FuncSpec, depth int) *Frame {
	return &Frame{fn: fn, spec: spec, vals: map[ssa.Value]Val{}, locals: map[string]localRef{}, callOrd: map[string]int{},
		loops: map[*ssa.BasicBlock]*loopCtx{}, params: map[string]Val{}, depth: depth}
}

func (ex *Executor) symbolicParam(st *State, name string, ty types.Type) Val {
	s := sortOf(ty)
	t := Sym("p."+sanitize(name), s)
	v := Val{T: t, Ty: ty}
	st.assume(rangeFact(t, ty))
	if isPointerLike(ty) {
		st.assume(And(Ge(t, Num(0)), Le(t, Sym("alloc@0", SInt))))
	}
	if _, ok := ty.Underlying().(*types.Slice); ok {
		ex.sliceFacts(st, t)
		st.assume(And(Ge(ex.sarr(t), Num(0)), Le(ex.sarr(t), Sym("alloc@0", SInt))))
	}
	return v
}

func (ex *Executor) sliceFacts(st *State, id *Term) {
	l, c := ex.slen(id), ex.scap(id)
	st.assume(And(Ge(l, Num(0)), Le(l, c), Ge(App("soff", SInt, id), Num(0))))
	st.assume(Implies(Eq(id, Num(0)), Eq(l, Num(0))))
}

func (ex *Executor) drain() {
	for len(ex.work) > 0 {
		st := ex.work[len(ex.work)-1]
		ex.work = ex.work[:len(ex.work)-1]
		ex.pathCount++
		if ex.pathCount > 3000 {
			ex.errf("%s: path explosion (> 3000 paths)", ex.unitKey)
			ex.work = nil
			return
		}
		ex.runPath(st)
	}
}

// runPath executes one state until it terminates; forks are pushed on the worklist.
func (ex *Executor) runPath(st *State) {
	steps := 0
	for {
		steps++
		if steps > 200000 {
			ex.errf("%s: path too long", ex.unitKey)
			return
		}
		fr := st.top()
		if fr.idx >= len(fr.blk.Instrs) {
			ex.errf("%s: fell off block %d of %s", ex.unitKey, fr.blk.Index, fr.fn)
			return
		}
		ins := fr.blk.Instrs[fr.idx]
		fr.idx++
		cont := ex.execInstr(st, fr, ins)
		if !cont {
			return
		}
	}
}

func (ex *Executor) fork(st *State, label string) *State {
	n := st.clone()
	n.path = append(n.path, label)
	return n
}

// jump to block b of the top frame; handles loop cut points. returns false if the path ends.
func (ex *Executor) enterBlock(st *State, fr *Frame, to *ssa.BasicBlock) bool {
	from := fr.blk
	fr.prev = from
	fr.blk = to
	fr.idx = 0
	if !isLoopHead(to) {
		ex.execPhis(st, fr, to, from)
		return true
	}
	ord := loopOrdinal(to)
	var ls *LoopSpec
	if fr.spec != nil {
		ls = fr.spec.Loops[ord]
	}
	lc := fr.loops[to]
	back := to.Dominates(from) // arriving via a back edge
	if ls == nil || ls.Unroll {
		if lc == nil {
			lc = &loopCtx{head: to}
			fr.loops[to] = lc
		}
		if !back {
			lc.visits = 0
		}
		lc.visits++
		if lc.visits > 70 {
			ex.errf("%s: loop %d of %s has no invariant and does not unroll within 70 iterations", ex.unitKey, ord, fr.fn)
			return false
		}
		ex.execPhis(st, fr, to, from)
		return true
	}
	// contracted loop: a cut point
	ex.execPhis(st, fr, to, from)
	cutName := fmt.Sprintf("loop %d", ord)
	if back && lc != nil && lc.cut {
		// inv-step + frame + segment
		env := ex.envFor(st, fr)
		for i, c := range ls.Invs {
			v, err := ex.evalSpec(c.Expr, env)
			if err != nil {
				ex.errf("%s: loop %d invariant %q: %v", ex.unitKey, ord, c.Text, err)
				return false
			}
			ex.addObl(st, "inv-step", fmt.Sprintf("loop %d: %s", ord, clauseLabel(c, i)), v.T, c.Text, c.Tags)
		}
		if ls.HasMod {
			ex.checkFrame(st, fr, lc.headHeap, lc.headAlloc, ls.Modifies, fmt.Sprintf("loop %d", ord), lc.headHeap)
		}
		ex.endSegment(st, fr, cutName)
		return false
	}
	// first entry: inv-init, end the running segment, havoc, assume
	env := ex.envFor(st, fr)
	for i, c := range ls.Invs {
		v, err := ex.evalSpec(c.Expr, env)
		if err != nil {
			ex.errf("%s: loop %d invariant %q: %v", ex.unitKey, ord, c.Text, err)
			return false
		}
		ex.addObl(st, "inv-init", fmt.Sprintf("loop %d: %s", ord, clauseLabel(c, i)), v.T, c.Text, c.Tags)
	}
	if fr.unit {
		ex.endSegment(st, fr, cutName)
	}
	// havoc
	preHeap := copyHeap(st.heap)
	for _, phi := range phisOf(to) {
		nv := ex.freshOfType(st, "phi."+phi.Comment, phi.Type())
		if phi.Comment == "rangeindex" {
			// built-in invariant of go/ssa's range loops: the hidden index starts at -1 and only grows
			st.assume(Ge(nv.T, Num(-1)))
		} else if lb, ok := countingPhiLowerBound(phi); ok {
			// built-in invariant of a counting loop (i := c; ...; i++ / i += k with k > 0): i never drops below c
			// (integers are mathematical here: the assumption list of every evidence file says so)
			st.assume(Ge(nv.T, NumB(lb)))
		}
		fr.vals[phi] = nv
		if phi.Comment != "" {
			fr.locals[phi.Comment] = localRef{v: nv}
		}
	}
	ex.setNextIndex(fr, to)
	loopBlocks := naturalLoop(to)
	if ls.HasMod {
		env := ex.envFor(st, fr)
		for _, loc := range ls.Modifies {
			name, idx, srt, err := ex.evalLoc(loc, env)
			if err != nil {
				ex.errf("%s: loop %d modifies: %v", ex.unitKey, ord, err)
				return false
			}
			cur := heapGetIn(preHeap, name, arrayOf(srt))
			if _, ok := st.heap[name]; ok {
				cur = st.heap[name]
			}
			st.heap[name] = Store(cur, idx, Fresh("hv", srt))
		}
		// locals held in cells that are written in the loop are covered by phis; address-taken locals: havoc cells written
	} else {
		var cells []ssa.Value
		w := ex.writtenInBlocksP(fr.fn, loopBlocks, &cells)
		st.havocNames(w)
		if w["*"] {
			ex.note("loop %d of %s without modifies clause contains calls: whole heap havocked at the cut", ord, ex.unitKey)
		} else {
			for _, c := range cells {
				if pv, ok := fr.vals[c]; ok {
					ex.store(st, pv, ex.freshOfType(st, "hv."+c.Name(), c.Type().Underlying().(*types.Pointer).Elem()))
				}
			}
		}
	}
	// variables living in cells (address-taken locals, captured variables) written in the loop
	ex.havocGlobalsWritten(st, fr.fn, loopBlocks)
	na := Fresh("alloc", SInt)
	st.assume(Ge(na, st.alloc))
	st.alloc = na
	st.rebirth(preHeap)
	env = ex.envFor(st, fr)
	for _, c := range ls.Invs {
		v, err := ex.evalSpec(c.Expr, env)
		if err != nil {
			ex.errf("%s: loop %d invariant %q: %v", ex.unitKey, ord, c.Text, err)
			return false
		}
		st.assume(v.T)
	}
	lc = &loopCtx{head: to, cut: true, headHeap: copyHeap(st.heap), headAlloc: st.alloc}
	fr.loops[to] = lc
	st.events = nil
	st.segStart = cutName
	st.segHeap = copyHeap(st.heap)
	st.segAlloc = st.alloc
	st.segLocals = map[string]Val{}
	for k, l := range fr.locals {
		if !l.isAddr {
			st.segLocals[k] = l.v
		}
	}
	st.path = append(st.path, fmt.Sprintf("L%d", ord))
	return true
}

func clauseLabel(c *Clause, i int) string {
	if c.Label != "" {
		return c.Label
	}
	return fmt.Sprintf("%d", i)
}

func phisOf(b *ssa.BasicBlock) []*ssa.Phi {
	var out []*ssa.Phi
	for _, ins := range b.Instrs {
		if p, ok := ins.(*ssa.Phi); ok {
			out = append(out, p)
		} else {
			break
		}
	}
	return out
}

func (ex *Executor) execPhis(st *State, fr *Frame, to, from *ssa.BasicBlock) {
	idx := -1
	for i, p := range to.Preds {
		if p == from {
			idx = i
			break
		}
	}
	phis := phisOf(to)
	// parallel assignment
	vals := make([]Val, len(phis))
	for i, phi := range phis {
		if idx < 0 {
			vals[i] = ex.freshOfType(st, "phi", phi.Type())
			continue
		}
		vals[i] = ex.value(st, fr, phi.Edges[idx])
		if vals[i].Ty == nil {
			vals[i].Ty = phi.Type()
		}
	}
	for i, phi := range phis {
		fr.vals[phi] = vals[i]
		if phi.Comment != "" {
			fr.locals[phi.Comment] = localRef{v: vals[i]}
		}
	}
	ex.setNextIndex(fr, to)
	fr.idx = len(phis)
}

// setNextIndex: contracts can speak about "the index of the element loop k is about to process" as nextindex<k>,
// whatever the shape of the loop: the hidden index of a range loop plus one, or the only counting variable of an
// index loop (for i := c; ...; i++).
func (ex *Executor) setNextIndex(fr *Frame, head *ssa.BasicBlock) {
	if !isLoopHead(head) {
		return
	}
	name := fmt.Sprintf("nextindex%d", loopOrdinal(head))
	delete(fr.locals, name)
	var counting []*ssa.Phi
	for _, phi := range phisOf(head) {
		v, ok := fr.vals[phi]
		if !ok || v.T == nil {
			continue
		}
		if phi.Comment == "rangeindex" {
			nv := Val{T: Add(v.T, Num(1)), Ty: phi.Type()}
			fr.locals[name] = localRef{v: nv}
			// the key variable of the range clause (for i := range s) is that index: at the loop head it denotes
			// the index of the element about to be processed, as the counter of an index loop does
			if refs := phi.Referrers(); refs != nil {
				for _, r := range *refs {
					if b, ok := r.(*ssa.BinOp); ok && b.Op == token.ADD {
						if brefs := b.Referrers(); brefs != nil {
							for _, d := range *brefs {
								if dr, ok := d.(*ssa.DebugRef); ok && !dr.IsAddr && dr.Object() != nil {
									fr.locals[dr.Object().Name()] = localRef{v: nv}
								}
							}
						}
					}
				}
			}
			return
		}
		if _, ok := countingPhiLowerBound(phi); ok {
			counting = append(counting, phi)
		}
	}
	if len(counting) == 1 {
		fr.locals[name] = localRef{v: fr.vals[counting[0]]}
	}
}

func isLoopHead(b *ssa.BasicBlock) bool {
	for _, p := range b.Preds {
		if b.Dominates(p) {
			return true
		}
	}
	return false
}

// ordinal of loop head b among the loop heads of its function, in block order
func loopOrdinal(b *ssa.BasicBlock) int {
	n := 0
	for _, x := range b.Parent().Blocks {
		if x == b {
			return n
		}
		if isLoopHead(x) {
			n++
		}
	}
	return -1
}

func naturalLoop(head *ssa.BasicBlock) map[*ssa.BasicBlock]bool {
	in := map[*ssa.BasicBlock]bool{head: true}
	var stack []*ssa.BasicBlock
	for _, p := range head.Preds {
		if head.Dominates(p) && !in[p] {
			in[p] = true
			stack = append(stack, p)
		}
	}
	for len(stack) > 0 {
		b := stack[len(stack)-1]
		stack = stack[:len(stack)-1]
		for _, p := range b.Preds {
			if !in[p] {
				in[p] = true
				stack = append(stack, p)
			}
		}
	}
	return in
}

// ---------------------------------------------------------------------------------------------
// values

func (ex *Executor) freshOfType(st *State, label string, ty types.Type) Val {
	if tup, ok := ty.(*types.Tuple); ok {
		v := Val{IsTuple: true, Ty: ty}
		for i := 0; i < tup.Len(); i++ {
			v.Fs = append(v.Fs, ex.freshOfType(st, fmt.Sprintf("%s.%d", label, i), tup.At(i).Type()))
		}
		return v
	}
	t := Fresh(label, sortOf(ty))
	st.assume(rangeFact(t, ty))
	if isPointerLike(ty) {
		st.assume(And(Ge(t, Num(0)), Le(t, st.alloc)))
	}
	if _, ok := ty.Underlying().(*types.Slice); ok {
		ex.sliceFacts(st, t)
		st.assume(And(Ge(ex.sarr(t), Num(0)), Le(ex.sarr(t), st.alloc)))
	}
	if isString(ty) {
		st.assume(Ge(strLen(t), Num(0)))
	}
	return Val{T: t, Ty: ty}
}

func (ex *Executor) constVal(c *ssa.Const) Val {
	ty := c.Type()
	if c.Value == nil {
		// zero value / nil
		if sortOf(ty) == SBool {
			return Val{T: tFalse, Ty: ty}
		}
		if isStruct(ty) {
			return ex.zeroStruct(ty)
		}
		if isString(ty) {
			return Val{T: strLit(""), Ty: ty}
		}
		return Val{T: Num(0), Ty: ty}
	}
	switch c.Value.Kind() {
	case constant.Bool:
		return Val{T: Bool(constant.BoolVal(c.Value)), Ty: ty}
	case constant.Int:
		b, _ := new(big.Int).SetString(c.Value.ExactString(), 10)
		return Val{T: NumB(b), Ty: ty}
	case constant.String:
		return Val{T: strLit(constant.StringVal(c.Value)), Ty: ty}
	case constant.Float:
		// floats are not modelled: opaque id per distinct constant
		return Val{T: UniqueSym("float!" + sanitize(c.Value.ExactString())), Ty: ty}
	}
	return Val{T: Fresh("const", sortOf(ty)), Ty: ty}
}

func (ex *Executor) zeroStruct(ty types.Type) Val {
	s := structOf(ty)
	v := Val{Ty: ty}
	for i := 0; i < s.NumFields(); i++ {
		v.Fs = append(v.Fs, ex.zeroVal(s.Field(i).Type()))
	}
	return v
}

func (ex *Executor) zeroVal(ty types.Type) Val {
	if isStruct(ty) {
		return ex.zeroStruct(ty)
	}
	if sortOf(ty) == SBool {
		return Val{T: tFalse, Ty: ty}
	}
	if isString(ty) {
		return Val{T: strLit(""), Ty: ty}
	}
	if _, ok := ty.Underlying().(*types.Array); ok {
		return Val{T: Fresh("zeroarr", SInt), Ty: ty}
	}
	return Val{T: Num(0), Ty: ty}
}

func (ex *Executor) value(st *State, fr *Frame, v ssa.Value) Val {
	switch x := v.(type) {
	case *ssa.Const:
		return ex.constVal(x)
	case *ssa.Global:
		return Val{T: UniqueSym("global!" + sanitize(x.String())), Ty: x.Type(), P: &Ptr{Kind: PGlobal, G: x}}
	case *ssa.Function:
		return Val{T: fnId(x), Ty: x.Type(), Fn: &FnVal{Fn: x, Id: fnId(x)}}
	case *ssa.Builtin:
		return Val{T: UniqueSym("builtin!" + x.Name()), Ty: x.Type()}
	}
	if r, ok := fr.vals[v]; ok {
		return r
	}
	ex.errf("%s: value %s (%T) of %s not defined on this path", ex.unitKey, v.Name(), v, fr.fn)
	nv := ex.freshOfType(st, "undef", v.Type())
	fr.vals[v] = nv
	return nv
}

// ---- struct values ----

func (ex *Executor) structField(v Val, i int) Val {
	s := structOf(v.Ty)
	if v.Fs != nil {
		return v.Fs[i]
	}
	f := s.Field(i)
	t := App(fieldFnName(v.Ty, f.Name()), sortOf(f.Type()), v.T)
	return Val{T: t, Ty: f.Type()}
}

func (ex *Executor) structId(st *State, v Val) *Term {
	if v.T != nil {
		return v.T
	}
	s := structOf(v.Ty)
	id := freshId("sv." + typeName(v.Ty))
	for i := 0; i < s.NumFields(); i++ {
		f := s.Field(i)
		fv := v.Fs[i]
		var ft *Term
		if isStruct(f.Type()) {
			ft = ex.structId(st, fv)
		} else {
			ft = fv.T
		}
		if ft == nil {
			continue
		}
		st.assume(Eq(App(fieldFnName(v.Ty, f.Name()), sortOf(f.Type()), id), ft))
	}
	return id
}

// term of a value for storing into generic containers (elements, channels, interfaces)
func (ex *Executor) asTerm(st *State, v Val) *Term {
	if v.T != nil {
		return v.T
	}
	if v.Ty != nil && isStruct(v.Ty) {
		return ex.structId(st, v)
	}
	return Fresh("opaque", SInt)
}

// ---- pointers ----

func (ex *Executor) ptrOf(v Val) *Ptr {
	if v.P != nil {
		return v.P
	}
	pt, ok := v.Ty.Underlying().(*types.Pointer)
	if !ok {
		return &Ptr{Kind: PCell, Base: v.T, Elem: v.Ty}
	}
	if isStruct(pt.Elem()) && !isBigIntPtr(v.Ty) {
		return &Ptr{Kind: PRef, Base: v.T, Owner: pt.Elem()}
	}
	return &Ptr{Kind: PCell, Base: v.T, Elem: pt.Elem()}
}

func cellName(s Sort) string { return "cell." + string(s) }
func elemName(s Sort) string { return "E." + string(s) }

// elemNameT: element heap of arrays with this element type. Arrays of different (underlying) element types live in
// different maps: without unsafe, two slices can share memory only if their element types have identical
// underlying types.
func elemNameT(elem types.Type) string {
	if it, ok := elem.Underlying().(*types.Interface); ok && it.NumMethods() == 0 {
		return "E.Int.any" // interface{} and any print differently
	}
	return "E." + string(sortOf(elem)) + "." + sanitize(types.TypeString(elem.Underlying(), nil))
}

var byteElems = elemNameT(types.Typ[types.Uint8])

func (ex *Executor) subRef(st *State, owner types.Type, fname string, base *Term) *Term {
	t := App(subFnName(owner, fname), SInt, base)
	// embedded struct fields of different objects are different objects: the sub-object function has a left inverse
	// (ground instance per use; gives injectivity without a quantifier)
	if st != nil {
		k := "subinv:" + t.Key()
		if !st.seenFact(k) {
			st.assume(Eq(App("un"+subFnName(owner, fname), SInt, t), base))
			// a part of an object allocated here is as new as the object: it lies between the previous
			// watermark and the object itself, hence differs from every older and every later reference
			root := base
			for root.Op == "app" && strings.HasPrefix(root.Name, "sub.") && len(root.Args) == 1 {
				root = root.Args[0]
			}
			if prev, ok := refPrev[root.Key()]; ok {
				st.assume(And(Gt(t, prev), Le(t, root)))
			}
		}
	}
	return t
}

func (ex *Executor) loadStructFrom(st *State, heap map[string]*Term, useState bool, ref *Term, ty types.Type) Val {
	s := structOf(ty)
	v := Val{Ty: ty}
	for i := 0; i < s.NumFields(); i++ {
		f := s.Field(i)
		if isStruct(f.Type()) {
			v.Fs = append(v.Fs, ex.loadStructFrom(st, heap, useState, ex.subRef(st, ty, f.Name(), ref), f.Type()))
			continue
		}
		v.Fs = append(v.Fs, ex.loadField(st, heap, useState, ty, f, ref))
	}
	return v
}

func (ex *Executor) loadField(st *State, heap map[string]*Term, useState bool, owner types.Type, f *types.Var, ref *Term) Val {
	name := fieldMapName(owner, f.Name())
	srt := sortOf(f.Type())
	var arr *Term
	if useState {
		arr = st.heapGet(name, arrayOf(srt))
	} else {
		arr = heapGetIn(heap, name, arrayOf(srt))
	}
	t := Select(arr, ref)
	v := Val{T: t, Ty: f.Type()}
	ex.loadedFacts(st, v)
	return ex.recover(v)
}

// facts about a value read from the heap
func (ex *Executor) loadedFacts(st *State, v Val) {
	if v.T == nil || v.T.IsNum() || v.T.Op == opSym && uniqueSyms[v.T.Name] {
		return
	}
	if v.T.Op != "select" && v.T.Op != "app" {
		return
	}
	st.assume(rangeFact(v.T, v.Ty))
	if v.Ty != nil && isString(v.Ty) {
		st.assume(Ge(strLen(v.T), Num(0)))
	}
	if v.Ty != nil {
		// a reference read from a heap map at an object that already existed when that map version came into
		// being was stored no later than that (objects allocated later may hold later references)
		var older *Term // condition under which the tighter bound applies
		var tight *Term
		if v.T.Op == "select" && st.birth != nil && v.T.Args[0].Op != "select" {
			if b, ok := st.birth[v.T.Args[0].Key()]; ok {
				older, tight = Le(v.T.Args[1], b), b
			}
		}
		bound := st.alloc
		if tight != nil {
			if isPointerLike(v.Ty) {
				st.assume(Implies(older, Le(v.T, tight)))
			}
			if _, ok := v.Ty.Underlying().(*types.Slice); ok {
				st.assume(Implies(older, Le(ex.sarr(v.T), tight)))
			}
		}
		if isPointerLike(v.Ty) {
			st.assume(And(Ge(v.T, Num(0)), Le(v.T, bound)))
		}
		if _, ok := v.Ty.Underlying().(*types.Slice); ok {
			ex.sliceFacts(st, v.T)
			// the backing array of a slice that already exists was allocated earlier
			st.assume(And(Ge(ex.sarr(v.T), Num(0)), Le(ex.sarr(v.T), bound)))
		}
	}
}

// recover side information (closure / interface) for a term that simplified back to a known id
func (ex *Executor) recover(v Val) Val {
	if v.T == nil {
		return v
	}
	if v.T.Op == opSym {
		if f := fnIds[v.T.Name]; f != nil {
			v.Fn = &FnVal{Fn: f, Id: v.T}
		} else if c, ok := ex.cloInfo[v.T.Name]; ok {
			v.Fn = c
		}
	}
	return v
}

func (ex *Executor) load(st *State, pv Val) Val {
	p := ex.ptrOf(pv)
	switch p.Kind {
	case PRef:
		return ex.loadStructFrom(st, nil, true, p.Base, p.Owner)
	case PField:
		f := structOf(p.Owner).Field(p.Field)
		if isStruct(f.Type()) {
			return ex.loadStructFrom(st, nil, true, ex.subRef(st, p.Owner, f.Name(), p.Base), f.Type())
		}
		return ex.loadField(st, nil, true, p.Owner, f, p.Base)
	case PElem:
		srt := sortOf(p.Elem)
		e := st.heapGet(elemNameT(p.Elem), arrayOf(arrayOf(srt)))
		v := Val{T: Select(Select(e, p.Arr), p.Idx), Ty: p.Elem}
		ex.loadedFacts(st, v)
		return ex.recover(v)
	case PFieldOfElem:
		sv := ex.load(st, Val{P: p.Sub, Ty: types.NewPointer(p.Owner)})
		sv.Ty = p.Owner
		fv := ex.structField(sv, p.Field)
		ex.loadedFacts(st, fv)
		return fv
	case PGlobal:
		if v, ok := st.globals[p.G]; ok {
			return v
		}
		v := ex.initialGlobal(st, p.G)
		st.globals[p.G] = v
		ex.assumeTableFacts(st, relPkg(p.G.Pkg.Pkg.Path()), p.G.Name(), v)
		return v
	case PCell:
		if isBigIntPtr(types.NewPointer(p.Elem)) {
			// loading a big.Int struct value: not modelled
			return ex.freshOfType(st, "bigstruct", p.Elem)
		}
		if isStruct(p.Elem) {
			return ex.loadStructFrom(st, nil, true, p.Base, p.Elem)
		}
		srt := sortOf(p.Elem)
		v := Val{T: Select(st.heapGet(cellName(srt), arrayOf(srt)), p.Base), Ty: p.Elem}
		ex.loadedFacts(st, v)
		return ex.recover(v)
	}
	panic("load: bad pointer kind")
}

var globalSyms = map[string]*ssa.Global{} // symbol of a package-level variable -> the variable (replay)

func (ex *Executor) initialGlobal(st *State, g *ssa.Global) Val {
	ty := g.Type().(*types.Pointer).Elem()
	name := "g." + sanitize(relPkg(g.Pkg.Pkg.Path())+"."+g.Name())
	globalSyms[sanitize(name)] = g
	if isStruct(ty) {
		return Val{T: Sym(name, SInt), Ty: ty}
	}
	// sentinel error variables and other package-level values: one symbolic constant each.
	// error sentinels (errors.New at init) are distinct non-nil values.
	if types.Identical(ty, types.Universe.Lookup("error").Type()) {
		return Val{T: UniqueSym(name), Ty: ty}
	}
	t := Sym(name, sortOf(ty))
	v := Val{T: t, Ty: ty}
	st.assume(rangeFact(t, ty))
	if _, ok := ty.Underlying().(*types.Slice); ok {
		ex.sliceFacts(st, t)
		st.assume(Neq(t, Num(0)))
	}
	if _, ok := ty.Underlying().(*types.Map); ok {
		st.assume(Neq(t, Num(0)))
	}
	if _, ok := ty.Underlying().(*types.Pointer); ok {
		st.assume(Neq(t, Num(0)))
	}
	return v
}

func (ex *Executor) storeStructTo(st *State, ref *Term, ty types.Type, v Val) {
	s := structOf(ty)
	for i := 0; i < s.NumFields(); i++ {
		f := s.Field(i)
		fv := ex.structField(Val{T: v.T, Fs: v.Fs, Ty: ty}, i)
		if isStruct(f.Type()) {
			ex.storeStructTo(st, ex.subRef(st, ty, f.Name(), ref), f.Type(), fv)
			continue
		}
		ex.storeField(st, ty, f, ref, fv)
	}
}

func (ex *Executor) storeField(st *State, owner types.Type, f *types.Var, ref *Term, v Val) {
	name := fieldMapName(owner, f.Name())
	srt := sortOf(f.Type())
	t := v.T
	if t == nil {
		t = ex.asTerm(st, v)
	}
	st.heapSet(name, Store(st.heapGet(name, arrayOf(srt)), ref, t))
}

func (ex *Executor) store(st *State, pv Val, v Val) {
	p := ex.ptrOf(pv)
	switch p.Kind {
	case PRef:
		ex.storeStructTo(st, p.Base, p.Owner, v)
	case PField:
		f := structOf(p.Owner).Field(p.Field)
		if isStruct(f.Type()) {
			ex.storeStructTo(st, ex.subRef(st, p.Owner, f.Name(), p.Base), f.Type(), v)
			return
		}
		ex.storeField(st, p.Owner, f, p.Base, v)
	case PElem:
		srt := sortOf(p.Elem)
		name := elemNameT(p.Elem)
		e := st.heapGet(name, arrayOf(arrayOf(srt)))
		st.heapSet(name, Store(e, p.Arr, Store(Select(e, p.Arr), p.Idx, ex.asTerm(st, v))))
	case PFieldOfElem:
		// functional update of the struct value held in the element
		old := ex.load(st, Val{P: p.Sub, Ty: types.NewPointer(p.Owner)})
		old.Ty = p.Owner
		s := structOf(p.Owner)
		nv := Val{Ty: p.Owner}
		for i := 0; i < s.NumFields(); i++ {
			if i == p.Field {
				nv.Fs = append(nv.Fs, v)
			} else {
				nv.Fs = append(nv.Fs, ex.structField(old, i))
			}
		}
		ex.store(st, Val{P: p.Sub, Ty: types.NewPointer(p.Owner)}, nv)
	case PGlobal:
		v.Ty = p.G.Type().(*types.Pointer).Elem()
		st.globals[p.G] = v
	case PCell:
		if isStruct(p.Elem) && !isBigIntPtr(types.NewPointer(p.Elem)) {
			ex.storeStructTo(st, p.Base, p.Elem, v)
			return
		}
		srt := sortOf(p.Elem)
		name := cellName(srt)
		st.heapSet(name, Store(st.heapGet(name, arrayOf(srt)), p.Base, ex.asTerm(st, v)))
	}
}

// ---- slices ----

func (ex *Executor) slen(id *Term) *Term {
	if i, ok := ex.sliceInfo[id.Key()]; ok {
		return i.len
	}
	if id.IsNum() && id.Num.Sign() == 0 {
		return Num(0)
	}
	return App("slen", SInt, id)
}
func (ex *Executor) scap(id *Term) *Term {
	if i, ok := ex.sliceInfo[id.Key()]; ok {
		return i.cap
	}
	if id.IsNum() && id.Num.Sign() == 0 {
		return Num(0)
	}
	return App("scap", SInt, id)
}
func (ex *Executor) sarr(id *Term) *Term {
	if i, ok := ex.sliceInfo[id.Key()]; ok {
		return i.arr
	}
	return App("sarr", SInt, id)
}
func (ex *Executor) soff(id *Term) *Term {
	if i, ok := ex.sliceInfo[id.Key()]; ok {
		return i.off
	}
	return App("soff", SInt, id)
}

func (ex *Executor) mkSlice(st *State, arr, off, ln, cp *Term, ty types.Type) Val {
	freshCtr++
	id := UniqueSym(fmt.Sprintf("slice!%d", freshCtr))
	ex.sliceInfo[id.Key()] = &sliceInfo{arr, off, ln, cp}
	st.assume(And(Eq(App("slen", SInt, id), ln), Eq(App("scap", SInt, id), cp), Eq(App("sarr", SInt, id), arr), Eq(App("soff", SInt, id), off)))
	return Val{T: id, Ty: ty}
}

// element term i of slice id in the current heap
func (ex *Executor) sliceElem(st *State, heap map[string]*Term, id *Term, i *Term, elemTy types.Type) Val {
	srt := sortOf(elemTy)
	var e *Term
	if heap == nil {
		e = st.heapGet(elemNameT(elemTy), arrayOf(arrayOf(srt)))
	} else {
		e = heapGetIn(heap, elemNameT(elemTy), arrayOf(arrayOf(srt)))
	}
	v := Val{T: Select(Select(e, ex.sarr(id)), Add(ex.soff(id), i)), Ty: elemTy}
	ex.loadedFacts(st, v)
	return ex.recover(v)
}

// ---- interfaces ----

func (ex *Executor) mkIface(st *State, v Val, ifaceTy types.Type) Val {
	tag := typeTag(v.Ty)
	var pay *Term
	if v.T != nil && v.T.S == SBool {
		pay = Ite(v.T, Num(1), Num(0))
	} else {
		pay = ex.asTerm(st, v)
	}
	id := App("mkiface", SInt, tag, pay)
	ex.ifaceInfo[id.Key()] = &ifaceInfo{tag: tag, ty: v.Ty, payload: v}
	st.assume(And(Eq(App("itag", SInt, id), tag), Eq(App("ipay", SInt, id), pay), Neq(id, Num(0))))
	return Val{T: id, Ty: ifaceTy}
}

func (ex *Executor) ifaceTag(id *Term) *Term {
	if i, ok := ex.ifaceInfo[id.Key()]; ok {
		return i.tag
	}
	return App("itag", SInt, id)
}

func (ex *Executor) ifacePayload(st *State, id *Term, ty types.Type) Val {
	if i, ok := ex.ifaceInfo[id.Key()]; ok && types.Identical(i.ty, ty) {
		return i.payload
	}
	p := App("ipay", SInt, id)
	if sortOf(ty) == SBool {
		return Val{T: Eq(p, Num(1)), Ty: ty}
	}
	v := Val{T: p, Ty: ty}
	ex.loadedFacts(st, v)
	return v
}

// ---------------------------------------------------------------------------------------------
// helper: positions

func (ex *Executor) pos(ins ssa.Instruction) string {
	p := ins.Pos()
	if p == token.NoPos {
		return ""
	}
	ps := ex.P.Prog.Fset.Position(p)
	return fmt.Sprintf("%s:%d", strings.TrimPrefix(ps.Filename, ex.P.RepoDir+"/"), ps.Line)
}

func sortedKeys(m map[string]bool) []string {
	var ks []string
	for k := range m {
		ks = append(ks, k)
	}
	sort.Strings(ks)
	return ks
}

// countingPhiLowerBound: phi is an integer loop variable whose every incoming value is either a constant or
// phi + (positive constant); it then never drops below the least of those constants.
func countingPhiLowerBound(phi *ssa.Phi) (*big.Int, bool) {
	b, ok := phi.Type().Underlying().(*types.Basic)
	if !ok || b.Info()&types.IsInteger == 0 {
		return nil, false
	}
	if b.Kind() != types.Int && b.Kind() != types.Int64 && b.Info()&types.IsUnsigned == 0 {
		return nil, false // a narrow signed counter can wrap below its start
	}
	var lb *big.Int
	for _, e := range phi.Edges {
		switch x := e.(type) {
		case *ssa.Const:
			if x.Value == nil || x.Value.Kind() != constant.Int {
				return nil, false
			}
			v, ok := new(big.Int).SetString(x.Value.ExactString(), 10)
			if !ok {
				return nil, false
			}
			if lb == nil || v.Cmp(lb) < 0 {
				lb = v
			}
		case *ssa.BinOp:
			if x.Op != token.ADD {
				return nil, false
			}
			var c *ssa.Const
			if x.X == ssa.Value(phi) {
				c, _ = x.Y.(*ssa.Const)
			} else if x.Y == ssa.Value(phi) {
				c, _ = x.X.(*ssa.Const)
			}
			if c == nil || c.Value == nil || c.Value.Kind() != constant.Int || constant.Sign(c.Value) <= 0 {
				return nil, false
			}
		default:
			return nil, false
		}
	}
	return lb, lb != nil
}
