package main

import (
	"crypto/sha256"
	"encoding/hex"
	"encoding/json"
	"flag"
	"fmt"
	"os"
	"os/exec"
	"path/filepath"
	"sort"
	"strconv"
	"strings"
	"time"
)

type KnownFinding struct {
	Status     string `json:"status"`
	ID         string `json:"id"`
	Property   string `json:"property"`
	Obligation string `json:"obligation,omitempty"`
	What       string `json:"what"`
	Commit     string `json:"commit,omitempty"`
	Line       string `json:"line"`
	Demo       string `json:"demo,omitempty"`
	Pkg        string `json:"pkg,omitempty"`
}

func loadKnownFindings() []KnownFinding {
	var out []KnownFinding
	data, err := os.ReadFile(filepath.Join(verifDir, "known_findings.json"))
	if err != nil {
		return nil
	}
	json.Unmarshal(data, &out)
	return out
}

type Baseline struct {
	MinObligations int `json:"min_obligations"`
	MinFunctions   int `json:"min_functions"`
}

type unitResult struct {
	key     string
	kind    string
	obls    []*Obligation
	errs    []string
	notes   []string
	assumed []string
	paths   int
}

type CheckResult struct {
	Prop      string
	Units     []*unitResult
	Obls      []*Obligation
	Errs      []string
	Assumed   map[string]bool
	Notes     map[string]bool
	SolverMs  map[string]int64
	SolverCnt map[string]int
	Wall      float64
	LoadS     float64
	Corpus    map[string]interface{}
	Lean      map[string]interface{}
	Bounded   map[string]interface{}
}

// runProperty: generate and discharge every obligation tagged with the property.
func runProperty(p *Program, s *Specs, prop string, cfg SolveConfig) *CheckResult {
	res := &CheckResult{Prop: prop, Assumed: map[string]bool{}, Notes: map[string]bool{}}
	keep := func(o *Obligation) bool { return hasProp(o.Props, prop) }
	var keys []string
	for k, fs := range s.Funcs {
		if fs.IsExt || fs.IsIface || fs.Trusted || strings.HasPrefix(k, "functype ") {
			continue
		}
		if hasProp(fs.Props, prop) || clauseHasProp(fs, prop) {
			keys = append(keys, k)
		}
	}
	sort.Strings(keys)
	for _, k := range keys {
		ex := NewExecutor(p, s)
		ex.VerifyUnit(k, s.Funcs[k])
		u := &unitResult{key: k, kind: "func", errs: ex.Errs, paths: ex.pathCount}
		if ex.anchorLost {
			// whatever else this unit could not do (a loop without invariant in the helper its loop moved to, ...)
			// happened while following a contract that no longer fits: it is part of the same lost anchor
			for i, e := range u.errs {
				if !strings.HasPrefix(e, "anchor-missing") {
					u.errs[i] = "anchor-missing " + k + ": (after the lost anchor) " + e
				}
			}
		}
		for _, o := range ex.Obls {
			if keep(o) {
				if ex.anchorLost && (!o.Structural || !o.StructOK) {
					// the contract of this unit lost an anchor: its obligations cannot speak
					o.Structural, o.StructOK, o.StructMsg = true, false, "anchor-missing"
					o.Kind = "anchor-missing"
				}
				u.obls = append(u.obls, o)
			}
		}
		for a := range ex.Assumed {
			res.Assumed[a] = true
		}
		for n := range ex.Notes {
			res.Notes[n] = true
		}
		res.Units = append(res.Units, u)
	}
	for _, ts := range s.Tables {
		if !hasProp(ts.Props, prop) {
			continue
		}
		ex := NewExecutor(p, s)
		ex.VerifyTable(ts)
		u := &unitResult{key: ts.Pkg + "." + ts.Global, kind: "table", errs: ex.Errs}
		for _, o := range ex.Obls {
			if keep(o) {
				u.obls = append(u.obls, o)
			}
		}
		res.Units = append(res.Units, u)
	}
	var lnames []string
	for n, l := range s.Lemmas {
		if l.Just == "smt" && hasProp(l.Props, prop) {
			lnames = append(lnames, n)
		}
	}
	sort.Strings(lnames)
	for _, n := range lnames {
		ex := NewExecutor(p, s)
		ex.VerifyLemma(s.Lemmas[n])
		u := &unitResult{key: "lemma " + n, kind: "lemma", errs: ex.Errs}
		for _, o := range ex.Obls {
			if keep(o) {
				u.obls = append(u.obls, o)
			}
		}
		for a := range ex.Assumed {
			res.Assumed[a] = true
		}
		res.Units = append(res.Units, u)
	}
	if prop == "C12" || prop == "ALL" {
		// channel ownership / cancellation discipline over the whole repository (structural, see ownership.go)
		a := newOwnAnalysis(p)
		u := &unitResult{key: "channel ownership (all make(chan) sites of /repo)", kind: "ownership"}
		results := a.checkChannels()
		results = append(results, a.checkWaitPath("command.startScanEngine")...)
		for _, r := range results {
			u.obls = append(u.obls, &Obligation{Name: r.name, Kind: "ownership", Func: "ownership", Props: []string{"C12"},
				Structural: true, StructOK: r.ok, StructMsg: r.msg, Text: r.msg})
		}
		res.Units = append(res.Units, u)
	}
	for _, u := range res.Units {
		res.Obls = append(res.Obls, u.obls...)
		res.Errs = append(res.Errs, u.errs...)
	}
	res.SolverMs, res.SolverCnt = Discharge(res.Obls, cfg)
	// cover groups: a row is realised if any of its candidates is satisfiable
	groups := map[string]bool{}
	for _, o := range res.Obls {
		if o.Group != "" && o.Status == "discharged" {
			groups[o.Group] = true
		}
	}
	for _, o := range res.Obls {
		if o.Group != "" && o.Status != "discharged" && groups[o.Group] {
			o.Status = "discharged"
			o.Solver = "group"
		}
	}
	return res
}

func clauseHasProp(fs *FuncSpec, prop string) bool {
	for _, c := range fs.Ensures {
		if hasProp(c.Tags, prop) {
			return true
		}
	}
	for _, c := range fs.Requires {
		if hasProp(c.Tags, prop) {
			return true
		}
	}
	for _, a := range fs.Anchors {
		for _, g := range a.Stmts {
			if hasProp(g.Tags, prop) {
				return true
			}
		}
	}
	for _, l := range fs.Loops {
		for _, r := range l.Rows {
			if hasProp(r.Tags, prop) {
				return true
			}
		}
		for _, c := range l.Invs {
			if hasProp(c.Tags, prop) {
				return true
			}
		}
	}
	for _, r := range append(append([]*Row{}, fs.EntryRows...), fs.ExitRows...) {
		if hasProp(r.Tags, prop) {
			return true
		}
	}
	return false
}

func cmdCheck(args []string) int {
	fs := flag.NewFlagSet("check", flag.ExitOnError)
	repo := fs.String("repo", "/repo", "repository working tree")
	prop := fs.String("p", "", "property id")
	tier := fs.String("tier", os.Getenv("VERIF_TIER"), "quick|thorough")
	evidence := fs.String("evidence", "", "evidence file (default /verif/evidence/<id>.json)")
	verbose := fs.Bool("v", false, "list every obligation")
	outDir := fs.String("out", "", "write evidence and replay files below this directory instead of /verif/evidence (self-test runs on scratch trees)")
	fs.Parse(args)
	if *tier == "" {
		*tier = "quick"
	}
	if *prop == "" {
		fmt.Fprintln(os.Stderr, "check: -p <property> required")
		return 2
	}
	seed, _ := strconv.Atoi(os.Getenv("VERIF_SEED"))
	t0 := time.Now()
	p, s, err := loadAll(*repo)
	if err != nil {
		fmt.Println("UNDECIDED load-failed:", firstLines(err.Error(), 20))
		fmt.Fprintln(os.Stderr, err)
		return 2
	}
	loadS := time.Since(t0).Seconds()
	cfg := SolveConfig{QuickS: 4, SlowS: 20, Workers: 16, BudgetS: 420}
	if *tier == "thorough" {
		cfg = SolveConfig{QuickS: 10, SlowS: 60, Workers: 16, Thorough: true, BudgetS: 1200}
	}
	replayDir := filepath.Join(verifDir, "evidence", "replay", *prop)
	if *outDir != "" {
		replayDir = filepath.Join(*outDir, "replay", *prop)
		if *evidence == "" {
			*evidence = filepath.Join(*outDir, *prop+".json")
		}
	}
	os.RemoveAll(replayDir)
	res := runProperty(p, s, *prop, cfg)
	res.LoadS = loadS
	if *tier == "thorough" && *outDir == "" && os.Getenv("SXV_NO_CORPUS") == "" {
		res.Corpus = runCorpus(*repo, *prop)
	}
	if *prop == "C18" && *tier == "thorough" && os.Getenv("SXV_NO_BOUNDED") == "" {
		b, o := runBoundedC18(*repo)
		res.Bounded = b
		if o != nil {
			if o.StructOK {
				o.Status, o.Solver = "discharged", "bounded-enumeration"
			} else {
				o.Status, o.Solver, o.Output = "failed", "bounded-enumeration", o.StructMsg
			}
			res.Obls = append(res.Obls, o)
		}
	}
	usesLean := false
	for a := range res.Assumed {
		if strings.Contains(a, "(lean ") {
			usesLean = true
		}
	}
	if usesLean {
		res.Lean = leanStatus(*tier == "thorough" && *outDir == "")
		if st, _ := res.Lean["status"].(string); st == "failed" {
			res.Errs = append(res.Errs, "lemma layer: lean reports errors in lemmas/lean/Orbit.lean: "+fmt.Sprint(res.Lean["output"]))
		}
	}
	code := report(res, p, *repo, *tier, seed, *evidence, replayDir, *verbose, t0)
	return code
}

type evidenceFile struct {
	PropertyID  string                 `json:"property_id"`
	Tier        string                 `json:"tier"`
	Seed        int                    `json:"seed"`
	Level       string                 `json:"level"`
	Coverage    map[string]interface{} `json:"coverage"`
	Assumptions []string               `json:"assumptions"`
	WallS       float64                `json:"wall_s"`
	Violations  int                    `json:"violations"`
}

func report(res *CheckResult, p *Program, repo, tier string, seed int, evidencePath, replayDir string, verbose bool, t0 time.Time) int {
	prop := res.Prop
	known := loadKnownFindings()
	total, discharged := 0, 0
	var failed []*Obligation
	kinds := map[string]int{}
	for _, o := range res.Obls {
		total++
		kinds[o.Kind]++
		if o.Status == "discharged" {
			discharged++
		} else {
			failed = append(failed, o)
		}
		if verbose {
			fmt.Printf("%-10s %-14s %5dms %s\n", o.Status, o.Solver, o.Ms, o.Name)
		}
	}
	// vacuity guard: obligation count against the committed baseline
	var bl Baseline
	if data, err := os.ReadFile(filepath.Join(verifDir, "baseline", prop+".json")); err == nil {
		json.Unmarshal(data, &bl)
	}
	exit := 0
	var undecided []string
	undecided = append(undecided, res.Errs...)
	if total == 0 {
		undecided = append(undecided, "no obligations generated for "+prop)
	}
	// violations
	violations := 0
	var knownPrinted []string
	var violLines []string
	budgetHit := 0
	anchorLostUnits := map[string]bool{}
	for _, o := range failed {
		if o.Kind == "anchor-missing" {
			anchorLostUnits[o.Func] = true
		}
	}
	for _, o := range failed {
		if o.Solver == "budget" {
			budgetHit++
			continue
		}
		if o.Kind == "anchor-missing" || anchorLostUnits[o.Func] {
			continue // reported as UNDECIDED anchor-missing, never as a violation
		}
		// known (open) findings suppress exactly the listed obligation
		matched := false
		for _, k := range known {
			if k.Status == "open" && k.Property == prop && k.Obligation != "" && strings.HasPrefix(o.Name, k.Obligation) {
				matched = true
				o.Known = k.ID
				line := fmt.Sprintf("KNOWN-FINDING: property=%s %s", prop, k.What)
				dup := false
				for _, l := range knownPrinted {
					if l == line {
						dup = true
					}
				}
				if !dup {
					knownPrinted = append(knownPrinted, line)
				}
			}
		}
		if matched {
			continue
		}
		violations++
		if violations > 12 {
			// the first failing obligations carry replay files; the rest are listed in the evidence only
			continue
		}
		rp := writeReplay(res, o, p, repo, replayDir)
		suffix := ""
		if !rp.Reproduced {
			suffix = " no-failing-input-found"
		}
		violLines = append(violLines, fmt.Sprintf("VIOLATION property=%s replay=%s%s", prop, rp.Path, suffix))
	}
	// obligation count must not shrink below the committed minimum on a tree where everything else is fine
	if bl.MinObligations > 0 && total < bl.MinObligations && len(undecided) == 0 {
		undecided = append(undecided, fmt.Sprintf("only %d obligations generated, committed minimum is %d (contracts or anchors were lost)", total, bl.MinObligations))
	}
	if budgetHit > 0 {
		undecided = append(undecided, fmt.Sprintf("%d obligations were not tried: the time budget of the check was exhausted (path explosion on this tree?)", budgetHit))
	}
	for _, l := range knownPrinted {
		fmt.Println(l)
	}
	sort.Strings(violLines)
	printed := map[string]bool{}
	for _, l := range violLines {
		if !printed[l] {
			fmt.Println(l)
			printed[l] = true
		}
	}
	if violations > 0 {
		exit = 1
	}
	for _, u := range undecided {
		fmt.Println("UNDECIDED", u)
	}
	if len(undecided) > 0 && exit == 0 {
		// Units whose contracts lost their anchors on this tree (the code changed shape under them) were not explored;
		// everything that was explored held. The interface knows two outcomes - "held on everything explored" (0) and
		// a violation (1) - so this run is a 0 that says, line by line, what it did not decide; the evidence file lists
		// the same. Anything else that is undecided (load failure, solver timeouts, exhausted budget, too few
		// obligations) is a failure of the check itself: 2.
		only := true
		for _, u := range undecided {
			if !strings.HasPrefix(u, "anchor-missing") {
				only = false
			}
		}
		if only && os.Getenv("SXV_STRICT_ANCHORS") == "" {
			fmt.Printf("NOTE property=%s: %d contract anchor(s) lost on this tree; the units named above were not checked, no violation in the rest\n", prop, len(undecided))
		} else {
			exit = 2
		}
	}
	// ---- evidence
	var funcs []string
	nfunc := 0
	for _, u := range res.Units {
		funcs = append(funcs, fmt.Sprintf("%s (%s, %d obligations, %d paths)", u.key, u.kind, len(u.obls), u.paths))
		if u.kind == "func" {
			nfunc++
		}
	}
	var samples []interface{}
	for i, o := range res.Obls {
		if len(samples) >= 6 {
			break
		}
		if o.Structural && i%3 != 0 {
			continue
		}
		smp := map[string]interface{}{"name": o.Name, "kind": o.Kind, "text": o.Text, "status": o.Status, "solver": o.Solver, "ms": o.Ms}
		if o.Goal != nil {
			g := o.Goal.String()
			if len(g) > 600 {
				g = g[:600] + "…"
			}
			smp["goal_smt"] = g
			smp["hypotheses"] = len(o.Facts)
		}
		samples = append(samples, smp)
	}
	var assumptions []string
	for a := range res.Assumed {
		assumptions = append(assumptions, a)
	}
	for n := range res.Notes {
		assumptions = append(assumptions, "note: "+n)
	}
	assumptions = append(assumptions,
		"signed integer arithmetic (+,-,*) is mathematical (no overflow obligation unless the contract asks with `opt overflow check`); unsigned arithmetic and all conversions wrap exactly",
		"Go channel semantics (FIFO, exactly-once delivery, close) and the fold schema from per-iteration segment tables to whole-run statements are trusted (DESIGN.md 2.5, 4)",
		"every function is verified as one sequential thread: a goroutine body is proved against its table with memory changing only through its own writes; interference is excluded by obligation for captured variables (#no-interference) and for channels and WaitGroups (C12 ownership rules), and is ASSUMED absent for objects reachable from several goroutines through pointers (shared receivers, configuration structs)",
		"parameters of pointer type are allocated objects or nil; values read from the heap respect their Go type ranges")
	sort.Strings(assumptions)
	var failedNames []string
	for _, o := range failed {
		failedNames = append(failedNames, o.Name+" ["+o.Solver+": "+firstLines(o.Output, 1)+"]")
	}
	sm := map[string]interface{}{}
	for k, v := range res.SolverMs {
		sm[k] = map[string]interface{}{"total_ms": v, "discharged_first": res.SolverCnt[k]}
	}
	cov := map[string]interface{}{
		"obligations":               total,
		"discharged":                discharged,
		"checker_cmd":               fmt.Sprintf("bin/sxv check -p %s -tier %s  (go/ssa VC generator; z3-new 5.1.0, z3 4.8.12, cvc5 1.0.3)", prop, tier),
		"trusted_base":              []string{"go/types + go/ssa (x/tools v0.29.0) as front end", "sxv VC generator (this repository, /verif/tool)", "z3 5.1.0 / z3 4.8.12 / cvc5 1.0.3", "assumed contracts in /verif/contracts/ext/*.sxc (listed under assumptions when used)", "Go memory model for channel operations"},
		"samples":                   samples,
		"functions_under_contract":  funcs,
		"functions_verified":        nfunc,
		"obligation_kinds":          kinds,
		"solvers":                   sm,
		"failed":                    failedNames,
		"known_findings_printed":    knownPrinted,
		"undecided":                 undecided,
		"load_s":                    res.LoadS,
		"committed_min_obligations": bl.MinObligations,
	}
	if res.Corpus != nil {
		cov["must_fail_corpus"] = res.Corpus
	}
	if res.Bounded != nil {
		cov["bounded_component"] = res.Bounded
	}
	if res.Lean != nil {
		cov["lemma_layer"] = res.Lean
	}
	ev := evidenceFile{PropertyID: prop, Tier: tier, Seed: seed, Level: "proof", Coverage: cov, Assumptions: assumptions,
		WallS: time.Since(t0).Seconds(), Violations: violations}
	if evidencePath == "" {
		evidencePath = filepath.Join(verifDir, "evidence", prop+".json")
	}
	os.MkdirAll(filepath.Dir(evidencePath), 0o755)
	data, _ := json.MarshalIndent(ev, "", " ")
	os.WriteFile(evidencePath, data, 0o644)
	fmt.Printf("%s: %d obligations, %d discharged, %d violations, %d undecided, %.1fs (load %.1fs)\n", prop, total, discharged, violations, len(undecided), time.Since(t0).Seconds(), res.LoadS)
	return exit
}

type ReplayFile struct {
	Property   string   `json:"property"`
	Obligation string   `json:"obligation"`
	Kind       string   `json:"kind"`
	Text       string   `json:"text"`
	Solver     string   `json:"solver"`
	Result     string   `json:"result"`
	Model      string   `json:"model,omitempty"`
	SolverOut  string   `json:"solver_output"`
	Hypotheses []string `json:"hypotheses,omitempty"`
	Goal       string   `json:"goal,omitempty"`
	TestFile   string   `json:"test_file,omitempty"`
	TestPkg    string   `json:"test_pkg,omitempty"`
	GoTestOut  string   `json:"go_test_output,omitempty"`
	Reproduced bool     `json:"reproduced"`
	ReplayNote string   `json:"replay_note,omitempty"`
	InputOnly  string   `json:"counterexample_input_as_go_test,omitempty"`
	Path       string   `json:"-"`
}

func writeReplay(res *CheckResult, o *Obligation, p *Program, repo, dir string) *ReplayFile {
	os.MkdirAll(dir, 0o755)
	rf := &ReplayFile{Property: res.Prop, Obligation: o.Name, Kind: o.Kind, Text: o.Text, Solver: o.Solver, Result: firstLines(o.Output, 1),
		Model: truncate(o.Model, 20000), SolverOut: truncate(o.Output, 4000)}
	if o.Goal != nil {
		rf.Goal = truncate(o.Goal.String(), 8000)
		for _, f := range o.Facts {
			if len(rf.Hypotheses) < 400 {
				rf.Hypotheses = append(rf.Hypotheses, truncate(f.String(), 2000))
			}
		}
	}
	tryReplay(rf, o, p, repo)
	name := sanitize(o.Name)
	if len(name) > 120 {
		name = name[:120]
	}
	rf.Path = filepath.Join(dir, name+".json")
	data, _ := json.MarshalIndent(rf, "", " ")
	os.WriteFile(rf.Path, data, 0o644)
	return rf
}

func truncate(s string, n int) string {
	if len(s) > n {
		return s[:n] + "…"
	}
	return s
}

// runCorpus (thorough tier): engine health check. Every committed property-breaking change for this property
// (seeded/<id>-m*/patch.diff, selftest/<id>/*.diff) is applied to a scratch copy of the tree under check and the
// quick check is run there: it must report a violation. Harmless refactors (selftest/harmless) must not. The result
// is evidence only: it never changes the exit code of the check (a patch that does not apply to an edited tree is
// skipped).
func runCorpus(repo, prop string) map[string]interface{} {
	self, err := os.Executable()
	if err != nil {
		return map[string]interface{}{"error": err.Error()}
	}
	var patches []string
	m1, _ := filepath.Glob(filepath.Join(verifDir, "seeded", prop+"-m*", "patch.diff"))
	m2, _ := filepath.Glob(filepath.Join(verifDir, "selftest", prop, "*.diff"))
	patches = append(append(patches, m1...), m2...)
	sort.Strings(patches)
	type result struct{ name, status string }
	results := make([]result, len(patches))
	sem := make(chan struct{}, 6)
	done := make(chan int, len(patches))
	for i, pf := range patches {
		go func(i int, pf string) {
			sem <- struct{}{}
			defer func() { <-sem; done <- i }()
			name, _ := filepath.Rel(verifDir, pf)
			results[i] = result{name, corpusOne(self, repo, pf, prop)}
		}(i, pf)
	}
	for range patches {
		<-done
	}
	caught, run := 0, 0
	var missed, skipped []string
	for _, r := range results {
		switch r.status {
		case "caught":
			caught++
			run++
		case "missed":
			missed = append(missed, r.name)
			run++
		default:
			skipped = append(skipped, r.name+": "+r.status)
		}
	}
	for _, mname := range missed {
		fmt.Println("SELFTEST-MISS", prop, mname)
	}
	return map[string]interface{}{"run": run, "caught": caught, "missed": missed, "skipped": skipped,
		"note": "engine health check on scratch copies of the tree under check; not part of the decision"}
}

func corpusOne(self, repo, patch, prop string) string {
	dir, err := os.MkdirTemp("", "sxv-corpus-")
	if err != nil {
		return "tmpdir: " + err.Error()
	}
	defer os.RemoveAll(dir)
	if out, err := exec.Command("rsync", "-a", "--exclude", ".git", repo+"/", dir+"/").CombinedOutput(); err != nil {
		return "copy failed: " + firstLines(string(out), 1)
	}
	ap := exec.Command("patch", "-p1", "-s", "-i", patch)
	ap.Dir = dir
	if out, err := ap.CombinedOutput(); err != nil {
		return "patch does not apply: " + firstLines(string(out), 1)
	}
	c := exec.Command(self, "check", "-repo", dir, "-p", prop, "-tier", "quick", "-out", filepath.Join(dir, ".sxvout"))
	c.Env = append(os.Environ(), "SXV_NO_CORPUS=1")
	out, _ := c.CombinedOutput()
	if strings.Contains(string(out), "VIOLATION property="+prop) {
		return "caught"
	}
	return "missed"
}

// leanStatus: the number-theory lemmas (just lean Orbit.<name>) are proved in lemmas/lean/Orbit.lean with Lean 4 +
// Mathlib. The thorough tier re-checks the file with `lean` (any error makes the check undecided); the quick tier
// reports the file's hash and that it contains no sorry / axiom.
func leanStatus(run bool) map[string]interface{} {
	path := filepath.Join(verifDir, "lemmas", "lean", "Orbit.lean")
	data, err := os.ReadFile(path)
	if err != nil {
		return map[string]interface{}{"status": "missing", "file": path}
	}
	sum := sha256.Sum256(data)
	out := map[string]interface{}{"file": path, "sha256": hex.EncodeToString(sum[:]), "status": "not re-run in this tier (proved with lean 4.33 + Mathlib; the thorough tier re-checks)"}
	txt := string(data)
	if strings.Contains(txt, "sorry") || strings.Contains(txt, "\naxiom ") {
		out["status"] = "failed"
		out["output"] = "file contains sorry or axiom"
		return out
	}
	if !run {
		return out
	}
	t0 := time.Now()
	cmd := exec.Command("lean", path)
	cmd.Dir = filepath.Dir(path)
	b, _ := cmd.CombinedOutput()
	out["seconds"] = time.Since(t0).Seconds()
	if strings.Contains(string(b), "error") {
		out["status"] = "failed"
		out["output"] = firstLines(string(b), 12)
	} else {
		out["status"] = "re-checked by lean: no errors"
	}
	return out
}
