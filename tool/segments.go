package main

import (
	"go/types"
	"fmt"
	"os"
	"sort"

	"golang.org/x/tools/go/ssa"
	"strings"
)

// endSegment checks the events of the segment that ends at cut point `to` against the rows of the
// cut point where it started.
func (ex *Executor) endSegment(st *State, fr *Frame, to string) {
	if !fr.unit || fr.spec == nil {
		return
	}
	spec := fr.spec
	from := st.segStart
	var fromRows []*Row
	if from == "entry" {
		fromRows = spec.EntryRows
	} else {
		var k int
		fmt.Sscanf(from, "loop %d", &k)
		if ls := spec.Loops[k]; ls != nil {
			fromRows = ls.Rows
		}
	}
	var cands []*Row
	for _, r := range fromRows {
		then := r.Then
		if then == "continue" {
			then = from
		}
		if then == "return" {
			then = "exit"
		}
		if then == "" || then == to {
			cands = append(cands, r)
		}
	}
	if to == "exit" {
		cands = append(cands, spec.ExitRows...)
	}
	hasTable := len(fromRows) > 0 || (to == "exit" && len(spec.ExitRows) > 0)
	if !hasTable {
		// a contract without any event table (pre/postconditions only) describes a function without observable effects:
		// a channel operation, a spawned goroutine or a call of an effectful function in it is not covered by the contract
		if !spec.anyTable() && len(spec.CallReqs) == 0 && len(spec.Observe) == 0 && len(spec.Opaque) == 0 {
			for _, e := range ex.segmentEvents(st) {
				switch e.Kind {
				case "call", "go", "send", "close", "recv":
					what := e.Kind
					if e.Fn != "" {
						what += " " + e.Fn
					}
					ex.addStructural(st, "effects", what+" "+e.Pos, false, "the contract of "+spec.Key+" has no event table, but the function performs "+what+" at "+e.Pos, nil)
				}
			}
		}
		return
	}
	evs := ex.segmentEvents(st)
	var alts []*Term
	var matched []string
	for _, r := range cands {
		c, ok, err := ex.matchRow(st, fr, r, evs)
		if err != nil {
			if debugRows {
				fmt.Printf("DEBUG row %s: %v\n", r.Name, err)
			}
			if strings.HasPrefix(err.Error(), "anchor-moved") {
				ex.errf("anchor-missing %s: contract row %s: %v", ex.unitKey, r.Name, err)
				continue
			}
			if strings.Contains(err.Error(), "unknown identifier") {
				// the row talks about a variable that does not exist on this path (e.g. the loop variable on the
				// exit path): it is not a candidate here; a row that is a candidate nowhere is reported as dead.
				// If the function has no variable of that name at all (renamed local), the contract lost its
				// anchor: the unit is undecided, not violated.
				if nm := unknownIdent(err.Error()); nm != "" && !hasSourceName(fr.fn, nm) {
					ex.errf("anchor-missing %s: contract row %s refers to variable %q, which does not exist in the function any more", ex.unitKey, r.Name, nm)
					ex.anchorLost = true
				}
				continue
			}
			ex.errf("%s: row %s: %v", ex.unitKey, r.Name, err)
			continue
		}
		if !ok {
			continue
		}
		alts = append(alts, c)
		matched = append(matched, r.Name)
		// coverage candidate
		ex.Obls = append(ex.Obls, &Obligation{Name: ex.oblName(st, "row-cover", r.Name), Kind: "row-cover", Func: ex.unitKey, Props: ex.propsFor(r.Tags),
			Facts: append(append([]*Term(nil), st.facts...), c), Cover: true, Group: ex.unitKey + "#row[" + r.Name + "]", Text: "row " + r.Name + " is realised by some path",
			Path: strings.Join(st.path, "")})
		ex.rowHits[r] = true
	}
	var descr []string
	for _, e := range evs {
		descr = append(descr, e.String())
	}
	text := fmt.Sprintf("segment %s -> %s with events [%s] is allowed by the table (structural candidates: %s)", from, to, strings.Join(descr, "; "), strings.Join(matched, ","))
	ex.addObl(st, "seg", from+"->"+to, Or(alts...), text, nil)
}

// anyTable: the contract has at least one event row
func (s *FuncSpec) anyTable() bool {
	if len(s.EntryRows) > 0 || len(s.ExitRows) > 0 {
		return true
	}
	for _, l := range s.Loops {
		if len(l.Rows) > 0 {
			return true
		}
	}
	return false
}

func (ex *Executor) segmentEvents(st *State) []*Event {
	var out []*Event
	for _, e := range st.events {
		switch e.Kind {
		case "make", "default":
			continue
		case "call":
			// a call of code outside the repository that is handed the address of a field which is new and never read
			// by the repository (a flag variable nothing consumes yet) concerns nothing a contract can describe
			dead := false
			if ex.P.Funcs[e.Fn] == nil {
				for _, a := range e.Args {
					if a.P != nil && a.P.Kind == PField && a.P.Owner != nil {
						if st := structOf(a.P.Owner); st != nil && a.P.Field < st.NumFields() && deadNewField(fieldMapName(a.P.Owner, st.Field(a.P.Field).Name())) {
							dead = true
						}
					}
				}
			}
			if dead {
				ex.note("a call of %s that only concerns a new, never-read field is not an event", e.Fn)
				continue
			}
		}
		out = append(out, e)
	}
	return out
}

func (ex *Executor) checkRowCoverage(spec *FuncSpec) {
	var all []*Row
	all = append(all, spec.EntryRows...)
	all = append(all, spec.ExitRows...)
	for _, ls := range spec.Loops {
		all = append(all, ls.Rows...)
	}
	for _, r := range all {
		if !ex.rowHits[r] {
			ex.addStructural(nil, "row-cover", r.Name, false, "row "+r.Name+" of "+spec.Key+" is matched by no path of the code (dead row: contract and code disagree)", r.Tags)
		}
	}
}

// matchRow: structural match of the event list against the row pattern; returns the constraint
// (argument equalities ∧ when-condition) under which the path is an instance of the row.
func (ex *Executor) matchRow(st *State, fr *Frame, r *Row, evs []*Event) (*Term, bool, error) {
	if len(evs) != len(r.Events) {
		return nil, false, nil
	}
	// a map lookup reads and has no effect: where in the segment it happens is not part of the table (evaluating it
	// inside a composite literal instead of into a local beforehand moves it behind the other field expressions)
	isLookupE := func(e *Event) bool { return e.Kind == "call" && e.Fn == "maplookup" }
	isLookupP := func(p *EvPat) bool { return p.Kind == "call" && p.Fn == "maplookup" }
	{
		var a, b []*Event
		for _, e := range evs {
			if isLookupE(e) {
				a = append(a, e)
			} else {
				b = append(b, e)
			}
		}
		if len(a) > 0 {
			evs = append(a, b...)
			var pa, pb []*EvPat
			for _, p := range r.Events {
				if isLookupP(p) {
					pa = append(pa, p)
				} else {
					pb = append(pb, p)
				}
			}
			r = &Row{Name: r.Name, Events: append(pa, pb...), When: r.When, Then: r.Then, Text: r.Text, Tags: r.Tags}
		}
	}
	env := ex.envFor(st, fr)
	if len(st.resultsForRows) > 0 {
		env.bindResults(fr.fn, st.resultsForRows)
	}
	var cs []*Term
	skipped := map[string]bool{}
	binderEvent := map[string]int{} // argument binders of call events -> index of that event
	bind := func(name string, v Val) {
		if name == "" || name == "_" {
			return
		}
		env.vars[name] = v
	}
	var curHeap map[string]*Term // heap at the start of the call event being matched
	eqArg := func(pat *SExpr, v Val) error {
		if pat.Kind == "ident" && pat.Name == "_" {
			return nil
		}
		penv := env
		if curHeap != nil && env.heapOverride == nil {
			// an argument pattern denotes its value when the call happens
			c := *env
			c.heapOverride = curHeap
			penv = &c
		}
		pv, err := ex.evalSpec(pat, penv)
		if err != nil {
			return err
		}
		vt := v.T
		if vt == nil {
			vt = ex.asTerm(st, v)
		}
		pt := pv.T
		if pt == nil {
			pt = ex.asTerm(st, pv)
		}
		if pt.S != vt.S {
			return fmt.Errorf("sort mismatch matching %s", pat)
		}
		cs = append(cs, Eq(pt, vt))
		return nil
	}
	chanEq := func(pat *SExpr, ch *Term) error {
		if pat == nil || (pat.Kind == "ident" && pat.Name == "_") {
			return nil
		}
		if pat.Kind == "ident" && strings.HasPrefix(pat.Name, "bind_") {
			bind(strings.TrimPrefix(pat.Name, "bind_"), Val{T: ch})
			return nil
		}
		pv, err := ex.evalSpec(pat, env)
		if err != nil {
			return err
		}
		cs = append(cs, Eq(pv.T, ch))
		return nil
	}
	for i, p := range r.Events {
		e := evs[i]
		curHeap = nil
		if e.Kind == "call" {
			curHeap = e.Heap
		}
		switch p.Kind {
		case "ctxdone":
			if e.Kind != "ctxdone" {
				return nil, false, nil
			}
		case "recv":
			if e.Kind != "recv" {
				return nil, false, nil
			}
			if err := chanEq(p.Chan, e.Chan); err != nil {
				return nil, false, err
			}
			if len(p.Bind) > 0 {
				bind(p.Bind[0], e.Val)
			}
			if len(p.Bind) > 1 {
				bind(p.Bind[1], Val{T: e.OK})
			}
			if p.OK == "true" {
				cs = append(cs, e.OK)
			} else if p.OK == "false" {
				cs = append(cs, Not(e.OK))
			}
		case "send", "send?":
			if e.Kind == "ctxdone" && p.Kind == "send?" && e.InSelect {
				// the guarded send lost against cancellation: nothing was sent, so conditions on the value
				// that would have been sent do not apply
				if a := p.Args[0]; a.Kind == "ident" && strings.HasPrefix(a.Name, "bind_") {
					skipped[strings.TrimPrefix(a.Name, "bind_")] = true
				}
				continue
			}
			if e.Kind != "send" {
				return nil, false, nil
			}
			if p.Kind == "send?" && !(e.InSelect && e.Guarded) {
				// send? is the cancel-guarded send: a plain send does not match
				return nil, false, nil
			}
			if err := chanEq(p.Chan, e.Chan); err != nil {
				return nil, false, err
			}
			if a := p.Args[0]; a.Kind == "ident" && strings.HasPrefix(a.Name, "bind_") {
				bind(strings.TrimPrefix(a.Name, "bind_"), e.Val)
			} else if err := eqArg(a, e.Val); err != nil {
				return nil, false, err
			}
		case "close":
			if e.Kind != "close" {
				return nil, false, nil
			}
			if err := chanEq(p.Chan, e.Chan); err != nil {
				return nil, false, err
			}
		case "call", "go", "defer":
			if e.Kind == p.Kind && p.Kind == "go" && !nameMatches(e.Fn, p.Fn) && strings.Contains(p.Fn, "$") && ex.literalGone(p.Fn) {
				// the row expects a goroutine running a function literal that no longer exists, and a goroutine IS
				// started at this point: with a function that has no contract (the literal became a named function), or
				// with another literal of the same function (the literals were renumbered). The row lost its anchor.
				if ex.S.Funcs[e.Fn] == nil || literalParent(e.Fn) == literalParent(funcKeyOf(ex, p.Fn, e.Fn)) {
					return nil, false, fmt.Errorf("anchor-moved: the function literal %s does not exist any more (the goroutine now runs %s)", p.Fn, e.Fn)
				}
			}
			if e.Kind != p.Kind || !nameMatches(e.Fn, p.Fn) {
				return nil, false, nil
			}
			if p.Named != nil {
				var nms []string
				for nm := range p.Named {
					nms = append(nms, nm)
				}
				sort.Strings(nms)
				for _, nm := range nms {
					a := p.Named[nm]
					k := -1
					for i, n := range e.ArgNames {
						if n == nm {
							k = i
						}
					}
					if k < 0 {
						// the captured variable was a receiver or parameter that has been renamed since
						if cf := ex.P.Funcs[e.Fn]; cf != nil {
							nn := ex.renamedParam(cf, nm)
							if nn == "" {
								nn = ex.renamedLocal(cf, nm)
							}
							if nn != "" {
								for i, n := range e.ArgNames {
									if n == nn {
										k = i
									}
								}
							} else if !hasSourceName(cf, nm) && !hasSourceName(fr.fn, nm) {
								return nil, false, fmt.Errorf("unknown identifier %q", nm) // renamed local: the row lost its anchor
							}
						}
					}
					if k < 0 || k >= len(e.Args) {
						return nil, false, nil // the closure does not capture this variable
					}
					if a.Kind == "ident" && strings.HasPrefix(a.Name, "bind_") {
						bind(strings.TrimPrefix(a.Name, "bind_"), e.Args[k])
						continue
					}
					if err := eqArg(a, e.Args[k]); err != nil {
						return nil, false, err
					}
				}
			}
			if p.Args != nil {
				if len(p.Args) != len(e.Args) {
					return nil, false, fmt.Errorf("event %s has %d arguments, pattern %q has %d", e.Fn, len(e.Args), p.Text, len(p.Args))
				}
				for k, a := range p.Args {
					if a.Kind == "ident" && strings.HasPrefix(a.Name, "bind_") {
						bind(strings.TrimPrefix(a.Name, "bind_"), e.Args[k])
						if sn, ok := e.Snaps[k]; ok {
							if env.snaps == nil {
								env.snaps = map[string][]Val{}
							}
							env.snaps[strings.TrimPrefix(a.Name, "bind_")] = sn
						}
						if e.Heap != nil {
							if env.bindHeap == nil {
								env.bindHeap = map[string]map[string]*Term{}
							}
							env.bindHeap[strings.TrimPrefix(a.Name, "bind_")] = e.Heap
							binderEvent[strings.TrimPrefix(a.Name, "bind_")] = i
						}
						continue
					}
					if err := eqArg(a, e.Args[k]); err != nil {
						return nil, false, err
					}
				}
			}
			for k, b := range p.Bind {
				if k < len(e.Res) {
					bind(b, e.Res[k])
				}
			}
		case "any":
		default:
			return nil, false, fmt.Errorf("unknown pattern kind %s", p.Kind)
		}
	}
	if r.When != nil {
		for _, cj := range conjuncts(r.When) {
			if len(skipped) > 0 && mentions(cj, skipped) {
				continue
			}
			cenv := env
			w, err := ex.evalSpec(cj, cenv)
			if err != nil {
				return nil, false, err
			}
			if debugRows && w.T.IsFalse() {
				fmt.Printf("DEBUG row %s: conjunct %s is false\n", r.Name, cj)
			}
			cs = append(cs, w.T)
		}
	}
	return And(cs...), true, nil
}

var debugRows = os.Getenv("SXV_DEBUG_ROWS") != ""

func conjuncts(e *SExpr) []*SExpr {
	if e.Kind == "binary" && e.Name == "&&" {
		return append(conjuncts(e.Args[0]), conjuncts(e.Args[1])...)
	}
	return []*SExpr{e}
}

func mentions(e *SExpr, names map[string]bool) bool {
	if e == nil {
		return false
	}
	if e.Kind == "ident" && names[e.Name] {
		return true
	}
	for _, a := range e.Args {
		if mentions(a, names) {
			return true
		}
	}
	return false
}

func unknownIdent(msg string) string {
	i := strings.Index(msg, "unknown identifier \"")
	if i < 0 {
		return ""
	}
	rest := msg[i+len("unknown identifier \""):]
	if j := strings.Index(rest, "\""); j >= 0 {
		return rest[:j]
	}
	return ""
}

// hasSourceName: does the function (or an enclosing function, for closures) have a parameter, captured variable,
// named result or local variable with this source name?
// ownSourceName: fn itself (not an enclosing function) has a parameter, captured variable or local of that name
func ownSourceName(fn *ssa.Function, name string) bool {
	for _, p := range fn.Params {
		if p.Name() == name {
			return true
		}
	}
	for _, v := range fn.FreeVars {
		if v.Name() == name {
			return true
		}
	}
	for _, b := range fn.Blocks {
		for _, ins := range b.Instrs {
			switch x := ins.(type) {
			case *ssa.DebugRef:
				if o := x.Object(); o != nil && o.Name() == name {
					if v, ok := o.(*types.Var); ok && v.IsField() {
						continue
					}
					return true
				}
			case *ssa.Alloc:
				if x.Comment == name {
					return true
				}
			}
		}
	}
	return false
}

func hasSourceName(fn *ssa.Function, name string) bool {
	for f := fn; f != nil; f = f.Parent() {
		for _, p := range f.Params {
			if p.Name() == name {
				return true
			}
		}
		for _, v := range f.FreeVars {
			if v.Name() == name {
				return true
			}
		}
		for _, b := range f.Blocks {
			for _, ins := range b.Instrs {
				switch x := ins.(type) {
				case *ssa.DebugRef:
					if o := x.Object(); o != nil && o.Name() == name {
						if v, ok := o.(*types.Var); ok && v.IsField() {
							continue // a field selector (c.opts) is not a variable of the function
						}
						return true
					}
				case *ssa.Alloc:
					if x.Comment == name {
						return true
					}
				case *ssa.Phi:
					if x.Comment == name {
						return true
					}
				}
			}
		}
	}
	return false
}

// literalGone: no function of the program is named by the function-literal pattern pat ("F$1", "(*T).M$2")
func (ex *Executor) literalGone(pat string) bool {
	for k := range ex.P.Funcs {
		if nameMatches(k, pat) {
			return false
		}
	}
	return true
}

// literalParent: "pkg.F$2$1" -> "pkg.F"
func literalParent(key string) string {
	if i := strings.Index(key, "$"); i >= 0 {
		return key[:i]
	}
	return key
}

// funcKeyOf: the pattern pat qualified like the key `like` (patterns may omit the package)
func funcKeyOf(ex *Executor, pat, like string) string {
	lp := literalParent(like)
	pp := literalParent(pat)
	if nameMatches(lp, pp) {
		return lp + pat[len(pp):]
	}
	return pat
}
