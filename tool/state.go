package main

import (
	"fmt"
	"strings"
	"go/types"
	"sort"

	"golang.org/x/tools/go/ssa"
)

type Event struct {
	Kind    string // recv send close ctxdone call go default make timer
	Chan    *Term
	Val     Val
	OK      *Term
	Fn      string
	Args    []Val
	ArgNames []string // go of a closure: names of the captured variables (parallel to the leading Args)
	Res     []Val
	Guarded bool // part of a select that also waits on ctx.Done (or the ctxdone case itself)
	InSelect bool
	Pos     string
}

func (e *Event) String() string {
	switch e.Kind {
	case "recv":
		return fmt.Sprintf("recv %s", e.Chan)
	case "send":
		return fmt.Sprintf("send %s %s", e.Chan, e.Val.T)
	case "close":
		return fmt.Sprintf("close %s", e.Chan)
	case "call", "go", "defer":
		var as []string
		for _, a := range e.Args {
			if a.T != nil {
				as = append(as, a.T.String())
			} else {
				as = append(as, "<composite>")
			}
		}
		return fmt.Sprintf("%s %s(%s)", e.Kind, e.Fn, strings.Join(as, ", "))
	}
	return e.Kind
}

type localRef struct {
	v      Val
	isAddr bool
}

type deferRec struct {
	call *ssa.CallCommon
	args []Val
	fn   Val
	instr ssa.Instruction
}

type loopCtx struct {
	head     *ssa.BasicBlock
	visits   int
	cut      bool
	headHeap map[string]*Term // heap right after havoc+assume (for the loop frame check)
	headAlloc *Term
}

type Frame struct {
	fn      *ssa.Function
	spec    *FuncSpec
	blk     *ssa.BasicBlock
	idx     int
	prev    *ssa.BasicBlock
	vals    map[ssa.Value]Val
	locals  map[string]localRef
	callOrd map[string]int
	retOrd  int
	defers  []deferRec
	loops   map[*ssa.BasicBlock]*loopCtx
	callInstr ssa.Instruction // call site in the caller frame (nil for the unit)
	deferred bool            // frame runs as a deferred call: results are dropped
	runningDefers bool
	results []Val
	oldHeap map[string]*Term
	oldGlobals map[*ssa.Global]Val
	oldAlloc *Term
	params  map[string]Val
	unit    bool
	depth   int
	afterReturn func(st *State, caller *Frame, res []Val) bool // special continuation (sort.Search closure evaluation)
	anchorName string
	anchorOrd  int
}

type State struct {
	frames  []*Frame
	heap    map[string]*Term
	globals map[*ssa.Global]Val
	facts   []*Term
	events  []*Event
	alloc   *Term
	path    []string
	segStart string // cut point where the current segment started: "entry" or "loop k"
	segHeap  map[string]*Term // heap at the start of the current segment (for pre(...) in rows)
	segLocals map[string]Val  // values of the unit frame's value-locals (loop phis) at the start of the segment
	segSpec  *FuncSpec
	cancelled bool
	notes   []string
	resultsForRows []Val
	noObl int // >0: obligations are suppressed (evaluation under a bound variable)
}

func (st *State) top() *Frame { return st.frames[len(st.frames)-1] }

func (st *State) clone() *State {
	n := &State{heap: map[string]*Term{}, globals: map[*ssa.Global]Val{}, alloc: st.alloc, segStart: st.segStart, segHeap: st.segHeap, segLocals: st.segLocals, segSpec: st.segSpec, cancelled: st.cancelled, noObl: st.noObl}
	for k, v := range st.heap {
		n.heap[k] = v
	}
	for k, v := range st.globals {
		n.globals[k] = v
	}
	n.facts = append([]*Term(nil), st.facts...)
	n.events = append([]*Event(nil), st.events...)
	n.path = append([]string(nil), st.path...)
	n.notes = append([]string(nil), st.notes...)
	for _, f := range st.frames {
		nf := *f
		nf.vals = make(map[ssa.Value]Val, len(f.vals))
		for k, v := range f.vals {
			nf.vals[k] = v
		}
		nf.locals = make(map[string]localRef, len(f.locals))
		for k, v := range f.locals {
			nf.locals[k] = v
		}
		nf.callOrd = make(map[string]int, len(f.callOrd))
		for k, v := range f.callOrd {
			nf.callOrd[k] = v
		}
		nf.loops = make(map[*ssa.BasicBlock]*loopCtx, len(f.loops))
		for k, v := range f.loops {
			c := *v
			nf.loops[k] = &c
		}
		nf.defers = append([]deferRec(nil), f.defers...)
		nf.results = append([]Val(nil), f.results...)
		n.frames = append(n.frames, &nf)
	}
	return n
}

func (st *State) assume(t *Term) {
	if t == nil || t.IsTrue() {
		return
	}
	st.facts = append(st.facts, t)
}

// ---- heap ----

func (st *State) heapGet(name string, s Sort) *Term {
	if t, ok := st.heap[name]; ok {
		return t
	}
	t := Sym(sanitize(name)+"@0", s)
	st.heap[name] = t
	return t
}

func heapGetIn(h map[string]*Term, name string, s Sort) *Term {
	if t, ok := h[name]; ok {
		return t
	}
	// never touched since the snapshot: the initial symbol
	return Sym(sanitize(name)+"@0", s)
}

func (st *State) heapSet(name string, t *Term) { st.heap[name] = t }

func (st *State) havocHeap(name string) {
	cur, ok := st.heap[name]
	if !ok {
		// determine sort from the initial symbol if known
		if s, ok2 := symTab[sanitize(name)+"@0"]; ok2 {
			st.heap[name] = Fresh(name, s)
		}
		return
	}
	st.heap[name] = Fresh(name, cur.S)
}

func (st *State) heapNames() []string {
	var ns []string
	for k := range st.heap {
		ns = append(ns, k)
	}
	sort.Strings(ns)
	return ns
}

func (st *State) newRef(label string) *Term {
	freshCtr++
	r := UniqueSym(fmt.Sprintf("ref!%s!%d", sanitize(label), freshCtr))
	st.assume(Gt(r, st.alloc))
	st.alloc = r
	return r
}

// a fresh opaque value id (slices, interfaces, struct values, strings): not a heap reference
func freshId(label string) *Term {
	return Fresh(label, SInt)
}

func structOf(t types.Type) *types.Struct {
	s, _ := t.Underlying().(*types.Struct)
	return s
}
