package main

import (
	"fmt"
	"go/types"
	"sort"
	"strings"

	"golang.org/x/tools/go/ssa"
)

type Event struct {
	Kind     string // recv send close ctxdone call go default make timer
	Chan     *Term
	Val      Val
	OK       *Term
	Fn       string
	Args     []Val
	Heap     map[string]*Term // heap when the call started (argument binders of a row are read in this heap)
	Snaps    map[int][]Val // short slice arguments: their elements at the time of the call
	ArgNames []string // go of a closure: names of the captured variables (parallel to the leading Args)
	Res      []Val
	Guarded  bool // part of a select that also waits on ctx.Done (or the ctxdone case itself)
	InSelect bool
	Pos      string
}

func (e *Event) String() string {
	switch e.Kind {
	case "recv":
		return fmt.Sprintf("recv %s", e.Chan)
	case "send":
		return fmt.Sprintf("send %s %s", e.Chan, e.Val.T)
	case "close":
		return fmt.Sprintf("close %s", e.Chan)
	case "call", "go", "defer":
		var as []string
		for _, a := range e.Args {
			if a.T != nil {
				as = append(as, a.T.String())
			} else {
				as = append(as, "<composite>")
			}
		}
		return fmt.Sprintf("%s %s(%s)", e.Kind, e.Fn, strings.Join(as, ", "))
	}
	return e.Kind
}

type localRef struct {
	v      Val
	isAddr bool
}

type deferRec struct {
	call  *ssa.CallCommon
	args  []Val
	fn    Val
	instr ssa.Instruction
}

type loopCtx struct {
	head      *ssa.BasicBlock
	visits    int
	cut       bool
	headHeap  map[string]*Term // heap right after havoc+assume (for the loop frame check)
	headAlloc *Term
}

type Frame struct {
	fn            *ssa.Function
	spec          *FuncSpec
	blk           *ssa.BasicBlock
	idx           int
	prev          *ssa.BasicBlock
	vals          map[ssa.Value]Val
	locals        map[string]localRef
	callOrd       map[string]int
	retOrd        int
	defers        []deferRec
	loops         map[*ssa.BasicBlock]*loopCtx
	callInstr     ssa.Instruction // call site in the caller frame (nil for the unit)
	deferred      bool            // frame runs as a deferred call: results are dropped
	runningDefers bool
	results       []Val
	oldHeap       map[string]*Term
	oldGlobals    map[*ssa.Global]Val
	oldAlloc      *Term
	params        map[string]Val
	unit          bool
	depth         int
	afterReturn   func(st *State, caller *Frame, res []Val) bool // special continuation (sort.Search closure evaluation)
	anchorName    string
	anchorOrd     int
}

type State struct {
	frames         []*Frame
	heap           map[string]*Term
	globals        map[*ssa.Global]Val
	facts          []*Term
	events         []*Event
	alloc          *Term
	path           []string
	segStart       string           // cut point where the current segment started: "entry" or "loop k"
	segHeap        map[string]*Term // heap at the start of the current segment (for pre(...) in rows)
	zeroStructs    map[string]*Term // zero value ids of struct types used in fresh arrays on this path
	segAlloc       *Term            // allocation watermark at the start of the current segment (for newobj(...))
	birth          map[string]*Term // heap map term (by key) -> allocation watermark when that version came into being (shared by all clones)
	onceFacts      map[string]bool
	segLocals      map[string]Val   // values of the unit frame's value-locals (loop phis) at the start of the segment
	segSpec        *FuncSpec
	cancelled      bool
	notes          []string
	resultsForRows []Val
	noObl          int // >0: obligations are suppressed (evaluation under a bound variable)
}

func (st *State) top() *Frame { return st.frames[len(st.frames)-1] }

func (st *State) clone() *State {
	n := &State{heap: map[string]*Term{}, globals: map[*ssa.Global]Val{}, alloc: st.alloc, segStart: st.segStart, segHeap: st.segHeap, segAlloc: st.segAlloc, birth: st.birth, segLocals: st.segLocals, segSpec: st.segSpec, cancelled: st.cancelled, noObl: st.noObl}
	for k, v := range st.heap {
		n.heap[k] = v
	}
	for k, v := range st.globals {
		n.globals[k] = v
	}
	n.facts = append([]*Term(nil), st.facts...)
	if st.zeroStructs != nil {
		n.zeroStructs = make(map[string]*Term, len(st.zeroStructs))
		for k, v := range st.zeroStructs {
			n.zeroStructs[k] = v
		}
	}
	if st.onceFacts != nil {
		n.onceFacts = make(map[string]bool, len(st.onceFacts))
		for k, v := range st.onceFacts {
			n.onceFacts[k] = v
		}
	}
	n.events = append([]*Event(nil), st.events...)
	n.path = append([]string(nil), st.path...)
	n.notes = append([]string(nil), st.notes...)
	for _, f := range st.frames {
		nf := *f
		nf.vals = make(map[ssa.Value]Val, len(f.vals))
		for k, v := range f.vals {
			nf.vals[k] = v
		}
		nf.locals = make(map[string]localRef, len(f.locals))
		for k, v := range f.locals {
			nf.locals[k] = v
		}
		nf.callOrd = make(map[string]int, len(f.callOrd))
		for k, v := range f.callOrd {
			nf.callOrd[k] = v
		}
		nf.loops = make(map[*ssa.BasicBlock]*loopCtx, len(f.loops))
		for k, v := range f.loops {
			c := *v
			nf.loops[k] = &c
		}
		nf.defers = append([]deferRec(nil), f.defers...)
		nf.results = append([]Val(nil), f.results...)
		n.frames = append(n.frames, &nf)
	}
	return n
}

// seenFact: true if the keyed helper fact was already added on this path (marks it as added otherwise)
func (st *State) seenFact(k string) bool {
	if st.onceFacts == nil {
		st.onceFacts = map[string]bool{}
	}
	if st.onceFacts[k] {
		return true
	}
	st.onceFacts[k] = true
	return false
}

func (st *State) assume(t *Term) {
	if t == nil || t.IsTrue() {
		return
	}
	st.facts = append(st.facts, t)
}

// ---- heap ----

// Heap maps that were never touched are denoted by an initial symbol name@<epoch>. The epoch is stored in the
// heap map itself (keys starting with "\x00"), so that snapshots carry it: a wholesale havoc ("the callee may
// write anything") bumps the global epoch, a havoc of all element arrays bumps the element epoch, a havoc of a
// single untouched map bumps that map's own epoch. Epoch 0 everywhere gives the plain name@0.
func heapEpoch(h map[string]*Term, name string) string {
	num := func(k string) int64 {
		if t, ok := h[k]; ok && t.IsNum() {
			return t.Num.Int64()
		}
		return 0
	}
	g, e, n := num("\x00ep"), int64(0), num("\x00n:"+name)
	if strings.HasPrefix(name, "E.") {
		e = num("\x00epE")
	}
	if g == 0 && e == 0 && n == 0 {
		return "0"
	}
	return fmt.Sprintf("%d.%d.%d", g, e, n)
}

func (st *State) heapGet(name string, s Sort) *Term {
	if t, ok := st.heap[name]; ok {
		return t
	}
	ep := heapEpoch(st.heap, name)
	t := Sym(sanitize(name)+"@"+ep, s)
	st.heap[name] = t
	if st.birth != nil {
		if _, ok := st.birth[t.Key()]; !ok {
			if ep == "0" {
				st.birth[t.Key()] = Sym("alloc@0", SInt)
			} else {
				st.birth[t.Key()] = st.alloc
			}
		}
	}
	return t
}

func heapGetIn(h map[string]*Term, name string, s Sort) *Term {
	if t, ok := h[name]; ok {
		return t
	}
	// never touched up to the snapshot: the initial symbol of the snapshot's epoch
	return Sym(sanitize(name)+"@"+heapEpoch(h, name), s)
}

func bumpEpoch(h map[string]*Term, key string) {
	n := int64(0)
	if t, ok := h[key]; ok && t.IsNum() {
		n = t.Num.Int64()
	}
	h[key] = Num(n + 1)
}

// havocAll: every heap map (touched or not) becomes unknown
func (st *State) havocAll() {
	for k := range st.heap {
		if !strings.HasPrefix(k, "\x00") {
			delete(st.heap, k)
		}
	}
	bumpEpoch(st.heap, "\x00ep")
}

// havocElems: every element-array map becomes unknown
func (st *State) havocElems() {
	for k := range st.heap {
		if strings.HasPrefix(k, "E.") {
			delete(st.heap, k)
		}
	}
	bumpEpoch(st.heap, "\x00epE")
}

// havocNames: havoc the maps of a static write set ("*" = everything, "E.*" = all element arrays)
func (st *State) havocNames(w map[string]bool) {
	if w["*"] {
		st.havocAll()
		return
	}
	if w["E.*"] {
		st.havocElems()
	}
	for n := range w {
		if n != "E.*" {
			st.havocHeap(n)
		}
	}
}

func (st *State) heapSet(name string, t *Term) {
	st.heap[name] = t
	if st.birth != nil {
		st.birth[t.Key()] = st.alloc
	}
}

// rebirth: heap maps that changed since `old` may now hold references up to the current watermark
func (st *State) rebirth(old map[string]*Term) {
	if st.birth == nil {
		return
	}
	for k, t := range st.heap {
		if strings.HasPrefix(k, "\x00") {
			continue
		}
		if o, ok := old[k]; !ok || o != t {
			st.birth[t.Key()] = st.alloc
		}
	}
}

func (st *State) havocHeap(name string) {
	cur, ok := st.heap[name]
	if !ok {
		bumpEpoch(st.heap, "\x00n:"+name)
		return
	}
	st.heap[name] = Fresh(name, cur.S)
}

func (st *State) heapNames() []string {
	var ns []string
	for k := range st.heap {
		if !strings.HasPrefix(k, "\x00") {
			ns = append(ns, k)
		}
	}
	sort.Strings(ns)
	return ns
}

func (st *State) newRef(label string) *Term {
	freshCtr++
	r := UniqueSym(fmt.Sprintf("ref!%s!%d", sanitize(label), freshCtr))
	st.assume(Gt(r, st.alloc))
	refPrev[r.Key()] = st.alloc
	st.alloc = r
	return r
}

// refPrev: allocation watermark just before a fresh reference was created (global: ref symbols are unique)
var refPrev = map[string]*Term{}

// a fresh opaque value id (slices, interfaces, struct values, strings): not a heap reference
func freshId(label string) *Term {
	return Fresh(label, SInt)
}

func structOf(t types.Type) *types.Struct {
	s, _ := t.Underlying().(*types.Struct)
	return s
}
