package main

import (
	"flag"
	"fmt"
	"go/types"
	"os"
	"path/filepath"
	"sort"
	"strings"
	"time"
)

var verifDir = "/verif"

func loadAll(repo string) (*Program, *Specs, error) {
	p, err := LoadRepo(repo, []string{"./..."})
	if err != nil {
		return nil, nil, err
	}
	s := NewSpecs()
	// assumed contracts of dependencies
	exts, _ := filepath.Glob(filepath.Join(verifDir, "contracts", "ext", "*.sxc"))
	sort.Strings(exts)
	for _, f := range exts {
		if err := s.LoadFile(f, ""); err != nil {
			return nil, nil, err
		}
	}
	for _, f := range contractFiles(repo) {
		rel, _ := filepath.Rel(repo, filepath.Dir(f))
		if rel == "." {
			rel = ""
		}
		if err := s.LoadFile(f, rel); err != nil {
			return nil, nil, err
		}
	}
	indexStructs(p, s)
	indexFieldReads(p)
	followFunctionRenames(p, s)
	return p, s, nil
}

func hasProp(props []string, p string) bool {
	if p == "ALL" {
		return true // regression runs: every unit once, whatever its tags (the verdict of a unit does not depend on the property asked for)
	}
	for _, x := range props {
		if x == p {
			return true
		}
	}
	return false
}

func main() {
	if len(os.Args) < 2 {
		fmt.Fprintln(os.Stderr, "usage: sxv check|unit|replay|selftest ...")
		os.Exit(2)
	}
	if d := os.Getenv("SXV_VERIF_DIR"); d != "" {
		verifDir = d
	}
	switch os.Args[1] {
	case "funcs":
		p, _, err := loadAll("/repo")
		if err != nil {
			fmt.Fprintln(os.Stderr, err)
			os.Exit(2)
		}
		var ks []string
		for k, f := range p.Funcs {
			if len(f.Blocks) > 0 && !strings.Contains(k, "Mock") && !strings.Contains(k, "easyjson") {
				n := 0
				for _, b := range f.Blocks {
					if isLoopHead(b) {
						n++
					}
				}
				ks = append(ks, fmt.Sprintf("%s  blocks=%d loops=%d", k, len(f.Blocks), n))
			}
		}
		sort.Strings(ks)
		fmt.Println(strings.Join(ks, "\n"))
	case "sigs":
		// receiver and parameter names of every function under contract (input of tool/addsigs.py)
		p, sp, err := loadAll("/repo")
		if err != nil {
			fmt.Fprintln(os.Stderr, err)
			os.Exit(2)
		}
		for _, k := range sp.Order {
			f := p.Funcs[k]
			spec := sp.Funcs[k]
			if f == nil || f.Synthetic != "" {
				continue
			}
			var ns, ls []string
			for _, q := range f.Params {
				ns = append(ns, q.Name())
			}
			for _, d := range sourceLocalsOf(p, f) {
				ls = append(ls, d.Name+": "+d.Type)
			}
			fmt.Printf("%s\t%s\t%s\t%s\t%s\n", spec.File, strings.TrimPrefix(k, spec.Pkg+"."), strings.Join(ns, ", "), strings.Join(ls, " ;; "), declSig(f))
		}
	case "funcnames":
		p, _, err := loadAll("/repo")
		if err != nil {
			fmt.Fprintln(os.Stderr, err)
			os.Exit(2)
		}
		by := map[string][]string{}
		for k, f := range p.Funcs {
			if strings.Contains(k, "$") || f.Synthetic != "" || strings.Contains(k, "Mock") {
				continue
			}
			pkg, recv, name := splitKey(k)
			if recv != "" {
				name = recv + "." + name
			}
			by[pkg] = append(by[pkg], name)
		}
		for pkg, ns := range by {
			sort.Strings(ns)
			fmt.Printf("%s\t%s\n", pkg, strings.Join(ns, " "))
		}
	case "structs":
		// field lists of the repo's struct types (input of tool/addsigs.py)
		p, _, err := loadAll("/repo")
		if err != nil {
			fmt.Fprintln(os.Stderr, err)
			os.Exit(2)
		}
		for _, pk := range p.Pkgs {
			if pk.Types == nil || !strings.HasPrefix(pk.Types.Path(), repoModule) {
				continue
			}
			sc := pk.Types.Scope()
			for _, n := range sc.Names() {
				if tn, ok := sc.Lookup(n).(*types.TypeName); ok {
					if st, ok := tn.Type().Underlying().(*types.Struct); ok && st.NumFields() > 0 && !strings.Contains(n, "Mock") {
						var fs []string
						for _, d := range structFields(st, pk.Types) {
							fs = append(fs, d.Name+": "+d.Type)
						}
						fmt.Printf("%s\t%s\t%s\n", relPkg(pk.Types.Path()), n, strings.Join(fs, " ;; "))
					}
				}
			}
		}
	case "fvwrites":
		p, _, err := loadAll("/repo")
		if err != nil {
			fmt.Fprintln(os.Stderr, err)
			os.Exit(2)
		}
		for k, f := range p.Funcs {
			for _, w := range interferingWrites(p, f) {
				fmt.Println(k, w)
			}
		}
	case "uncovered":
		p, sp, err := loadAll("/repo")
		if err != nil {
			fmt.Fprintln(os.Stderr, err)
			os.Exit(2)
		}
		var ks []string
		for k, f := range p.Funcs {
			if len(f.Blocks) > 0 && !strings.Contains(k, "Mock") && !strings.Contains(k, "easyjson") && sp.Funcs[k] == nil {
				ks = append(ks, k)
			}
		}
		sort.Strings(ks)
		fmt.Println(strings.Join(ks, "\n"))
	case "written":
		p, sp, err := loadAll("/repo")
		if err != nil {
			fmt.Fprintln(os.Stderr, err)
			os.Exit(2)
		}
		ex := NewExecutor(p, sp)
		for _, k := range os.Args[2:] {
			if fn := p.Funcs[k]; fn != nil {
				fmt.Println(k, sortedKeys(ex.writtenIn(fn)))
			}
		}
	case "unit":
		cmdUnit(os.Args[2:])
	case "check":
		os.Exit(cmdCheck(os.Args[2:]))
	case "replay":
		os.Exit(cmdReplay(os.Args[2:]))
	default:
		fmt.Fprintln(os.Stderr, "unknown command", os.Args[1])
		os.Exit(2)
	}
}

// cmdUnit: verify one function contract and print every obligation (debugging aid).
func cmdUnit(args []string) {
	fs := flag.NewFlagSet("unit", flag.ExitOnError)
	repo := fs.String("repo", "/repo", "repository")
	keep := fs.String("keep", "", "directory to keep failed SMT files")
	verbose := fs.Bool("v", false, "print facts of failed obligations")
	fs.Parse(args)
	t0 := time.Now()
	p, s, err := loadAll(*repo)
	if err != nil {
		fmt.Fprintln(os.Stderr, err)
		os.Exit(2)
	}
	fmt.Printf("loaded in %.1fs, %d contracts\n", time.Since(t0).Seconds(), len(s.Funcs))
	for _, key := range fs.Args() {
		spec := s.Funcs[key]
		if spec == nil {
			fmt.Println("no contract for", key)
			var ks []string
			for k := range s.Funcs {
				ks = append(ks, k)
			}
			sort.Strings(ks)
			fmt.Println(strings.Join(ks, "\n"))
			continue
		}
		ex := NewExecutor(p, s)
		ex.VerifyUnit(key, spec)
		Discharge(ex.Obls, SolveConfig{QuickS: 5, SlowS: 20, Workers: 16, KeepDir: *keep, BudgetS: 120})
		groups := map[string]bool{}
		for _, o := range ex.Obls {
			if o.Group != "" && o.Status == "discharged" {
				groups[o.Group] = true
			}
		}
		for _, o := range ex.Obls {
			if o.Group != "" && groups[o.Group] {
				o.Status = "discharged"
			}
		}
		for _, o := range ex.Obls {
			fmt.Printf("%-10s %-12s %5dms %s\n", o.Status, o.Solver, o.Ms, o.Name)
			if o.Status != "discharged" {
				fmt.Printf("    text: %s\n    out: %s\n", o.Text, firstLines(o.Output+"\n"+o.Model, 40))
				if *verbose {
					for _, f := range o.Facts {
						fmt.Println("    fact:", f)
					}
					fmt.Println("    goal:", o.Goal)
				}
			}
		}
		for _, e := range ex.Errs {
			fmt.Println("UNDECIDED:", e)
		}
		for n := range ex.Notes {
			fmt.Println("note:", n)
		}
		for _, a := range sortedKeys(ex.Assumed) {
			fmt.Println("assumed:", a)
		}
		fmt.Printf("paths: %d\n", ex.pathCount)
	}
}

func firstLines(s string, n int) string {
	ls := strings.Split(s, "\n")
	if len(ls) > n {
		ls = ls[:n]
	}
	return strings.Join(ls, "\n         ")
}
