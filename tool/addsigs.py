#!/usr/bin/env python3
# Inserts/refreshes "//@   sig <receiver and parameter names>" under every "//@ func" header of the contract files,
# from `sxv sigs` (names in the current source). Run once when a contract is written; contracts then keep their
# meaning when a receiver or parameter is renamed later.
import subprocess, collections, re, sys
out = subprocess.run(['/verif/bin/sxv', 'sigs'], capture_output=True, text=True).stdout
by = collections.defaultdict(dict)
for l in out.splitlines():
    f, h, ns = l.split('\t')
    by[f][h] = ns
for f, m in by.items():
    src = open(f).read().split('\n'); res = []; i = 0; n = 0
    while i < len(src):
        l = src[i]; res.append(l)
        mm = re.match(r'^//@ func (.+?)\s*$', l)
        if mm and mm.group(1) in m:
            if i + 1 < len(src) and re.match(r'^//@\s+sig\b', src[i+1]):
                i += 1
            res.append('//@   sig ' + m[mm.group(1)]); n += 1
        i += 1
    open(f, 'w').write('\n'.join(res))
    print(f, n)
