#!/usr/bin/env python3
# Inserts/refreshes the "sig" (receiver and parameter names) and "locals" (local variables in declaration order, with
# types) lines under every "//@ func" header of the contract files, from `sxv sigs` (names in the current source).
# Run when a contract is written or changed: contracts then keep their meaning when a receiver, a parameter or a
# local variable they mention is renamed later. "locals" is only written where the contract mentions a local.
import subprocess, collections, re, sys
out = subprocess.run(['/verif/bin/sxv', 'sigs'], capture_output=True, text=True).stdout
by = collections.defaultdict(dict)
for l in out.splitlines():
    f, h, ns, ls = l.split('\t')
    by[f][h] = (ns, ls)
def blocks(src):
    b = {}; cur = None
    for l in src:
        mm = re.match(r'^//@ func (.+?)\s*$', l)
        if mm:
            cur = mm.group(1); b[cur] = []
        elif cur is not None and l.startswith('//@') and not re.match(r'^//@\s+(sig|locals)\b', l):
            b[cur].append(l)
        elif not l.startswith('//@'):
            cur = None
    return b
for f, m in by.items():
    src = open(f).read().split('\n'); res = []; i = 0; n = 0; nl = 0
    bl = blocks(src)
    while i < len(src):
        l = src[i]; res.append(l)
        mm = re.match(r'^//@ func (.+?)\s*$', l)
        if mm and mm.group(1) in m:
            ns, ls = m[mm.group(1)]
            j = i + 1
            while j < len(src) and re.match(r'^//@\s+(sig|locals)\b', src[j]):
                j += 1
            # the rest of this contract
            k = j; block = []
            while k < len(src) and src[k].startswith('//@') and not src[k].startswith('//@ func') :
                block.append(src[k]); k += 1
            text = '\n'.join(block + [x for h2, b2 in bl.items() if h2.startswith(mm.group(1) + '$') for x in b2])
            if ns:
                res.append('//@   sig ' + ns); n += 1
            names = [x.split(':')[0].strip() for x in ls.split(';;') if x.strip()]
            if any(re.search(r'\b%s\b' % re.escape(x), text) for x in names):
                res.append('//@   locals ' + ls); nl += 1
            i = j - 1
        i += 1
    open(f, 'w').write('\n'.join(res))
    print(f, n, nl)
