package main

// Generic replay of a solver counterexample on the real code.
//
// For a failed obligation whose negation the solver found satisfiable, the entry state of the function under
// contract (parameters, receiver, the objects they point to, strings and integer slices) is read back from the
// solver with (get-value ...) over terms built from the function's signature, turned into Go literals, and the real
// function is called on them in an in-package test injected with `go test -overlay` (the repository is not written).
//
//   safe obligations   (index / slice bounds / nil dereference / division / type assertion / make):
//                      reproduced iff the real call panics.
//   post / frame / seg obligations at function exit:
//                      reproduced iff the real call returns exactly the results (and leaves exactly the field values)
//                      the counterexample predicts, and the violated condition mentions nothing but inputs, outputs and
//                      interpreted functions - then the real run violates it just as the counterexample does.
//
// Anything else (external results on the path, interface or channel parameters, closures, unexported foreign
// fields that matter) is not replayed: the violation is then reported with the solver output only.

import (
	"context"
	"fmt"
	"go/types"
	"math/big"
	"os"
	"path/filepath"
	"sort"
	"strings"

	"golang.org/x/tools/go/ssa"
)

type rnode struct {
	kind   string // int bool string ints ptr struct bigint iface skip
	ty     types.Type
	t      *Term
	name   string // Go access path for printing (post-state)
	fields []*rnode
	fnames []string
	elemTy types.Type
	// values read back
	val    *big.Int
	bval   bool
	length int
	elems  []*big.Int
	big    *big.Int
}

type replayGen struct {
	heap    map[string]*Term // entry heap (symbols @0)
	scalars []*Term          // phase-1 terms
	range1  []*Term          // range facts for phase-1 terms
	nodes   []*rnode
	pkg     *types.Package
	imports map[string]string // path -> alias
	globals []globalVal       // integer package-level variables the counterexample talks about, with their model values
}

type globalVal struct {
	g   *ssa.Global
	val *big.Int
}

func (g *replayGen) entrySel(name string, srt Sort, base *Term) *Term {
	return Select(heapGetIn(g.heap, name, arrayOf(srt)), base)
}

func (g *replayGen) build(t *Term, ty types.Type, depth int) *rnode {
	n := &rnode{ty: ty, t: t}
	g.nodes = append(g.nodes, n)
	switch u := ty.Underlying().(type) {
	case *types.Basic:
		switch {
		case u.Info()&types.IsBoolean != 0:
			n.kind = "bool"
			g.scalars = append(g.scalars, t)
		case u.Info()&types.IsInteger != 0:
			n.kind = "int"
			g.scalars = append(g.scalars, t)
			g.range1 = append(g.range1, rangeFact(t, ty))
		case u.Info()&types.IsString != 0:
			n.kind = "string"
			g.scalars = append(g.scalars, App("strlen", SInt, t))
			g.range1 = append(g.range1, Ge(App("strlen", SInt, t), Num(0)))
		default:
			n.kind = "skip"
		}
	case *types.Slice:
		if b, ok := u.Elem().Underlying().(*types.Basic); ok && b.Info()&types.IsInteger != 0 {
			n.kind = "ints"
			n.elemTy = u.Elem()
			g.scalars = append(g.scalars, t, App("slen", SInt, t))
			g.range1 = append(g.range1, Ge(App("slen", SInt, t), Num(0)), Ge(App("soff", SInt, t), Num(0)))
		} else {
			n.kind = "skip"
		}
	case *types.Pointer:
		if isBigIntPtr(ty) {
			n.kind = "bigint"
			g.scalars = append(g.scalars, t, Select(heapGetIn(g.heap, "bigval", SAII), t))
			return n
		}
		if st, ok := u.Elem().Underlying().(*types.Struct); ok && depth < 3 {
			n.kind = "ptr"
			g.scalars = append(g.scalars, t)
			n.fields, n.fnames = g.buildFields(t, u.Elem(), st, depth+1)
		} else {
			n.kind = "skip"
		}
	case *types.Interface:
		n.kind = "iface"
		g.scalars = append(g.scalars, t)
	default:
		n.kind = "skip"
	}
	return n
}

func (g *replayGen) buildFields(base *Term, owner types.Type, st *types.Struct, depth int) ([]*rnode, []string) {
	var fs []*rnode
	var names []string
	for i := 0; i < st.NumFields(); i++ {
		f := st.Field(i)
		names = append(names, f.Name())
		if !f.Exported() && f.Pkg() != g.pkg {
			fs = append(fs, &rnode{kind: "skip", ty: f.Type()})
			continue
		}
		if inner, ok := f.Type().Underlying().(*types.Struct); ok {
			sub := App(subFnName(owner, f.Name()), SInt, base)
			n := &rnode{kind: "struct", ty: f.Type(), t: sub}
			if depth < 4 {
				n.fields, n.fnames = g.buildFields(sub, f.Type(), inner, depth+1)
			} else {
				n.kind = "skip"
			}
			fs = append(fs, n)
			continue
		}
		t := g.entrySel(fieldMapName(owner, f.Name()), sortOf(f.Type()), base)
		fs = append(fs, g.build(t, f.Type(), depth))
	}
	return fs, names
}

// ---- solver round trips ----

func queryValues(facts []*Term, goal *Term, extra []*Term, vals []*Term) string {
	all := append(append([]*Term(nil), facts...), extra...)
	all = preInstantiate(all, goal)
	syms := map[string]Sort{}
	fns := map[string]bool{}
	for _, f := range all {
		f.collect(syms, fns, map[string]bool{})
	}
	if goal != nil {
		goal.collect(syms, fns, map[string]bool{})
	}
	for _, v := range vals {
		v.collect(syms, fns, map[string]bool{})
	}
	var b strings.Builder
	b.WriteString("(set-option :produce-models true)\n(set-logic ALL)\n")
	var names []string
	for n := range syms {
		names = append(names, n)
	}
	sort.Strings(names)
	for _, n := range names {
		fmt.Fprintf(&b, "(declare-fun %s () %s)\n", smtSym(n), syms[n])
	}
	names = names[:0]
	for n := range fns {
		names = append(names, n)
	}
	sort.Strings(names)
	for _, n := range names {
		sig := fnTab[n]
		var as []string
		for _, a := range sig.args {
			as = append(as, string(a))
		}
		fmt.Fprintf(&b, "(declare-fun %s (%s) %s)\n", smtSym(n), strings.Join(as, " "), sig.ret)
	}
	var us []string
	for n := range syms {
		if uniqueSyms[n] {
			us = append(us, smtSym(n))
		}
	}
	sort.Strings(us)
	if len(us) > 0 {
		fmt.Fprintf(&b, "(assert (distinct 0 %s))\n", strings.Join(us, " "))
	}
	for _, f := range all {
		if f.IsTrue() {
			continue
		}
		b.WriteString("(assert ")
		f.write(&b)
		b.WriteString(")\n")
	}
	if goal != nil {
		b.WriteString("(assert (not ")
		goal.write(&b)
		b.WriteString("))\n")
	}
	b.WriteString("(check-sat)\n(get-value (")
	for _, v := range vals {
		v.write(&b)
		b.WriteString(" ")
	}
	b.WriteString("))\n")
	return b.String()
}

// getValues asks the solver for concrete values of vals under facts ∧ ¬goal ∧ extra.
func getValues(facts []*Term, goal *Term, extra []*Term, vals []*Term) ([]sx, bool) {
	if len(vals) == 0 {
		return nil, true
	}
	dir, err := os.MkdirTemp("", "sxv-rp-")
	if err != nil {
		return nil, false
	}
	defer os.RemoveAll(dir)
	file := filepath.Join(dir, "q.smt2")
	os.WriteFile(file, []byte(queryValues(facts, goal, extra, vals)), 0o644)
	r := runSolver(context.Background(), solvers[0], file, 20)
	if r.status != "sat" {
		return nil, false
	}
	rest := r.out[strings.Index(r.out, "\n")+1:]
	e, _, ok := parseSx(rest, 0)
	if !ok || e.atom != "" || len(e.list) != len(vals) {
		return nil, false
	}
	var out []sx
	for _, p := range e.list {
		if len(p.list) != 2 {
			return nil, false
		}
		out = append(out, p.list[1])
	}
	return out, true
}

type sx struct {
	atom string
	list []sx
}

func parseSx(s string, i int) (sx, int, bool) {
	for i < len(s) && (s[i] == ' ' || s[i] == '\n' || s[i] == '\t' || s[i] == '\r') {
		i++
	}
	if i >= len(s) {
		return sx{}, i, false
	}
	if s[i] == '(' {
		i++
		var l []sx
		for {
			for i < len(s) && (s[i] == ' ' || s[i] == '\n' || s[i] == '\t' || s[i] == '\r') {
				i++
			}
			if i >= len(s) {
				return sx{}, i, false
			}
			if s[i] == ')' {
				return sx{list: l}, i + 1, true
			}
			e, j, ok := parseSx(s, i)
			if !ok {
				return sx{}, j, false
			}
			l = append(l, e)
			i = j
		}
	}
	j := i
	if s[i] == '|' {
		j = i + 1
		for j < len(s) && s[j] != '|' {
			j++
		}
		j++
	} else {
		for j < len(s) && !strings.ContainsRune(" \n\t\r()", rune(s[j])) {
			j++
		}
	}
	if j > len(s) {
		return sx{}, j, false
	}
	return sx{atom: s[i:j]}, j, true
}

func sxInt(e sx) (*big.Int, bool) {
	if e.atom != "" {
		v, ok := new(big.Int).SetString(e.atom, 10)
		return v, ok
	}
	if len(e.list) == 2 && e.list[0].atom == "-" {
		v, ok := sxInt(e.list[1])
		if !ok {
			return nil, false
		}
		return new(big.Int).Neg(v), true
	}
	return nil, false
}

// ---- Go source ----

func (g *replayGen) qual(p *types.Package) string {
	if p == g.pkg {
		return ""
	}
	if a, ok := g.imports[p.Path()]; ok {
		return a
	}
	a := fmt.Sprintf("sxvp%d", len(g.imports))
	g.imports[p.Path()] = a
	return a
}

func (g *replayGen) typeStr(t types.Type) string { return types.TypeString(t, g.qual) }

func bytesLit(es []*big.Int) string {
	var ps []string
	for _, e := range es {
		ps = append(ps, e.String())
	}
	return strings.Join(ps, ", ")
}

// lit renders the value of node n as a Go expression; ok=false if the node cannot be rendered faithfully.
func (g *replayGen) lit(n *rnode) (string, bool) {
	switch n.kind {
	case "bool":
		return fmt.Sprintf("%s(%t)", g.typeStr(n.ty), n.bval), true
	case "int":
		// a value the counterexample equates with a package-level variable of the same type is written as that
		// variable (the verifier knows such variables only by name, not by value)
		for _, gv := range g.globals {
			if gv.val.Cmp(n.val) == 0 && types.Identical(gv.g.Type().(*types.Pointer).Elem(), n.ty) && (gv.g.Object().Exported() || gv.g.Pkg.Pkg == g.pkg) {
				if q := g.qual(gv.g.Pkg.Pkg); q != "" {
					return q + "." + gv.g.Name(), true
				}
				return gv.g.Name(), true
			}
		}
		return fmt.Sprintf("%s(%s)", g.typeStr(n.ty), n.val.String()), true
	case "string":
		if n.length == 0 {
			return fmt.Sprintf("%s(\"\")", g.typeStr(n.ty)), true
		}
		return fmt.Sprintf("%s([]byte{%s})", g.typeStr(n.ty), bytesLit(n.elems)), true
	case "ints":
		if n.val.Sign() == 0 {
			return fmt.Sprintf("%s(nil)", g.typeStr(n.ty)), true
		}
		var ps []string
		for _, e := range n.elems {
			s, _ := g.lit(&rnode{kind: "int", ty: n.elemTy, val: e})
			if b, ok := n.elemTy.(*types.Basic); ok && b.Kind() == types.Uint8 {
				s = e.String()
			}
			ps = append(ps, s)
		}
		return fmt.Sprintf("%s{%s}", g.typeStr(n.ty), strings.Join(ps, ", ")), true
	case "bigint":
		if n.val.Sign() == 0 {
			return "(*" + g.qualBig() + ".Int)(nil)", true
		}
		return fmt.Sprintf("func() *%s.Int { v, _ := new(%s.Int).SetString(%q, 10); return v }()", g.qualBig(), g.qualBig(), n.big.String()), true
	case "iface":
		if n.val.Sign() == 0 {
			return "nil", true
		}
		return "", false
	case "ptr":
		if n.val.Sign() == 0 {
			return fmt.Sprintf("(%s)(nil)", g.typeStr(n.ty)), true
		}
		body, ok := g.structBody(n)
		if !ok {
			return "", false
		}
		return fmt.Sprintf("&%s{%s}", g.typeStr(n.ty.Underlying().(*types.Pointer).Elem()), body), true
	case "struct":
		body, ok := g.structBody(n)
		if !ok {
			return "", false
		}
		return fmt.Sprintf("%s{%s}", g.typeStr(n.ty), body), true
	}
	return "", false
}

func (g *replayGen) qualBig() string {
	for p, a := range g.imports {
		if p == "math/big" {
			return a
		}
	}
	a := fmt.Sprintf("sxvp%d", len(g.imports))
	g.imports["math/big"] = a
	return a
}

func (g *replayGen) structBody(n *rnode) (string, bool) {
	var ps []string
	for i, f := range n.fields {
		if f.kind == "skip" {
			continue // left at its zero value
		}
		s, ok := g.lit(f)
		if !ok {
			if f.kind == "iface" {
				continue // non-nil interface value: cannot be built; left nil
			}
			return "", false
		}
		ps = append(ps, n.fnames[i]+": "+s)
	}
	return strings.Join(ps, ", "), true
}

// observable: Go statements that print the observable form of expression expr (type ty) as one line "label value"
func (g *replayGen) observe(label, expr string, ty types.Type) (string, bool) {
	switch u := ty.Underlying().(type) {
	case *types.Basic:
		switch {
		case u.Info()&types.IsBoolean != 0:
			return fmt.Sprintf("obs = append(obs, fmt.Sprintf(\"%s %%t\", bool(%s)))\n", label, expr), true
		case u.Info()&types.IsInteger != 0:
			return fmt.Sprintf("obs = append(obs, fmt.Sprintf(\"%s %%d\", %s))\n", label, expr), true
		case u.Info()&types.IsString != 0:
			return fmt.Sprintf("obs = append(obs, fmt.Sprintf(\"%s %%x\", string(%s)))\n", label, expr), true
		}
	case *types.Slice:
		if b, ok := u.Elem().Underlying().(*types.Basic); ok && b.Info()&types.IsInteger != 0 {
			return fmt.Sprintf("if %s == nil { obs = append(obs, \"%s nil\") } else { obs = append(obs, fmt.Sprintf(\"%s %%v\", %s)) }\n", expr, label, label, expr), true
		}
	case *types.Pointer, *types.Interface, *types.Map, *types.Chan, *types.Signature:
		return fmt.Sprintf("if %s == nil { obs = append(obs, \"%s nil\") } else { obs = append(obs, \"%s nonnil\") }\n", expr, label, label), true
	}
	return "", false
}

// solve reads the values of all nodes (and of retTerms) back from the solver: scalars, lengths and nil-ness first,
// then - with those pinned - the elements of strings and integer slices.
func (g *replayGen) solve(o *Obligation, retTerms []*Term, small []*Term) ([]sx, string, bool) {
	q1 := append(append([]*Term(nil), g.scalars...), retTerms...)
	// integer package-level variables mentioned by the counterexample
	var gsyms []*ssa.Global
	{
		syms := map[string]Sort{}
		fns := map[string]bool{}
		for _, f := range o.Facts {
			f.collect(syms, fns, map[string]bool{})
		}
		o.Goal.collect(syms, fns, map[string]bool{})
		var names []string
		for s := range syms {
			if gl, ok := globalSyms[s]; ok && syms[s] == SInt && isInteger(gl.Type().(*types.Pointer).Elem()) {
				names = append(names, s)
			}
		}
		sort.Strings(names)
		for _, s := range names {
			gsyms = append(gsyms, globalSyms[s])
			q1 = append(q1, Sym(s, SInt))
		}
	}
	extra := append(append([]*Term(nil), g.range1...), small...)
	vals, ok := getValues(o.Facts, o.Goal, extra, q1)
	if !ok {
		extra = append([]*Term(nil), g.range1...)
		for _, n := range g.nodes {
			switch n.kind {
			case "string":
				extra = append(extra, Le(App("strlen", SInt, n.t), Num(4096)))
			case "ints":
				extra = append(extra, Le(App("slen", SInt, n.t), Num(4096)))
			}
		}
		vals, ok = getValues(o.Facts, o.Goal, extra, q1)
		if !ok {
			return nil, "replay not attempted: no small concrete input found by the solver", false
		}
	}
	// distribute phase-1 values, pin them, and ask for the elements
	k := 0
	var pins []*Term
	next := func() (*big.Int, bool, bool) { // int value, bool value, ok
		e := vals[k]
		t := q1[k]
		k++
		if t.S == SBool {
			b := e.atom == "true"
			pins = append(pins, Eq(t, Bool(b)))
			return nil, b, true
		}
		v, ok := sxInt(e)
		if ok {
			pins = append(pins, Eq(t, NumB(v)))
		}
		return v, false, ok
	}
	var q2 []*Term
	var q2owner []*rnode
	for _, n := range g.nodes {
		switch n.kind {
		case "bool":
			_, b, _ := next()
			n.bval = b
		case "int", "ptr", "iface":
			v, _, ok := next()
			if !ok {
				return nil, "replay not attempted: a value of the counterexample could not be read back", false
			}
			n.val = v
		case "string":
			v, _, ok := next()
			if !ok || !v.IsInt64() {
				return nil, "replay not attempted: a value of the counterexample could not be read back", false
			}
			n.length = int(v.Int64())
			for i := 0; i < n.length; i++ {
				bt := App("strbyte", SInt, n.t, Num(int64(i)))
				q2 = append(q2, bt)
				q2owner = append(q2owner, n)
				extra = append(extra, And(Ge(bt, Num(0)), Le(bt, Num(255))))
			}
		case "ints":
			v, _, ok := next()
			l, _, ok2 := next()
			if !ok || !ok2 || !l.IsInt64() {
				return nil, "replay not attempted: a value of the counterexample could not be read back", false
			}
			n.val = v
			n.length = int(l.Int64())
			if v.Sign() == 0 {
				n.length = 0
			}
			earr := heapGetIn(g.heap, elemNameT(n.elemTy), arrayOf(arrayOf(sortOf(n.elemTy))))
			for i := 0; i < n.length; i++ {
				et := Select(Select(earr, App("sarr", SInt, n.t)), Add(App("soff", SInt, n.t), Num(int64(i))))
				q2 = append(q2, et)
				q2owner = append(q2owner, n)
				extra = append(extra, rangeFact(et, n.elemTy))
			}
		case "bigint":
			v, _, ok := next()
			bv, _, ok2 := next()
			if !ok || !ok2 {
				return nil, "replay not attempted: a value of the counterexample could not be read back", false
			}
			n.val, n.big = v, bv
		}
	}
	var retVals []sx
	for range retTerms {
		e := vals[k]
		t := q1[k]
		k++
		retVals = append(retVals, e)
		if t.S == SBool {
			pins = append(pins, Eq(t, Bool(e.atom == "true")))
		} else if v, ok := sxInt(e); ok {
			pins = append(pins, Eq(t, NumB(v)))
		}
	}
	for _, gl := range gsyms {
		if v, ok := sxInt(vals[k]); ok {
			g.globals = append(g.globals, globalVal{gl, v})
			pins = append(pins, Eq(q1[k], NumB(v)))
		}
		k++
	}
	if len(q2) > 0 {
		vals2, ok := getValues(o.Facts, o.Goal, append(extra, pins...), q2)
		if !ok {
			return nil, "replay not attempted: the solver did not confirm the element values of the input", false
		}
		for i, e := range vals2 {
			v, ok := sxInt(e)
			if !ok {
				return nil, "replay not attempted: a value of the counterexample could not be read back", false
			}
			q2owner[i].elems = append(q2owner[i].elems, v)
		}
	}
	return retVals, "", true
}

// ---- driver ----

var replayAttempts = 0

func genericReplay(rf *ReplayFile, o *Obligation, p *Program, repo string) {
	if o.Goal == nil || !strings.HasPrefix(strings.TrimSpace(o.Output), "sat") {
		return
	}
	exit := o.Kind == "post" || o.Kind == "frame" || (o.Kind == "seg" && o.AtExit && o.NEvents == 0)
	if o.Kind != "safe" && !exit {
		return
	}
	fn := p.Funcs[o.Func]
	if fn == nil || len(fn.FreeVars) > 0 || fn.Pkg == nil {
		return
	}
	if strings.Contains(o.Path, "L") {
		// the obligation lies behind a loop cut: its hypotheses describe an arbitrary iteration (the invariant), not
		// a run from the function's entry, so the entry state of the counterexample says nothing about it
		rf.ReplayNote = "replay not attempted: the obligation lies behind a loop cut (its counterexample is a loop-head state, not an input)"
		return
	}
	if replayAttempts >= 4 {
		rf.ReplayNote = "replay not attempted: limit of attempts per run reached"
		return
	}
	g := &replayGen{heap: map[string]*Term{}, pkg: fn.Pkg.Pkg, imports: map[string]string{}}
	var params []*rnode
	for _, pr := range fn.Params {
		t := Sym("p."+sanitize(pr.Name()), sortOf(pr.Type()))
		n := g.build(t, pr.Type(), 0)
		n.name = pr.Name()
		if n.kind == "skip" || n.kind == "struct" {
			rf.ReplayNote = fmt.Sprintf("replay not attempted: parameter %s of type %s cannot be built from a model", pr.Name(), pr.Type())
			return
		}
		params = append(params, n)
	}
	replayAttempts++
	// small inputs first
	var small []*Term
	for _, n := range g.nodes {
		switch n.kind {
		case "string":
			small = append(small, Le(App("strlen", SInt, n.t), Num(64)))
		case "ints":
			small = append(small, Le(App("slen", SInt, n.t), Num(64)))
		case "ptr", "bigint":
			small = append(small, Neq(n.t, Num(0))) // prefer inputs without nil pointers
		}
	}
	// predicted outputs (exit obligations)
	var retTerms []*Term
	var retLabels []string
	var retKinds []string
	var postStmts []string
	goalOK := true
	if exit {
		goalOK = goalIsConcrete(o.Goal)
		for i, r := range o.Rets {
			lbl := fmt.Sprintf("ret%d", i)
			if r.T == nil || r.Ty == nil {
				goalOK = false
				continue
			}
			switch u := r.Ty.Underlying().(type) {
			case *types.Basic:
				if u.Info()&(types.IsBoolean|types.IsInteger) != 0 {
					retTerms = append(retTerms, r.T)
					retLabels = append(retLabels, lbl)
					retKinds = append(retKinds, "scalar")
				} else if u.Info()&types.IsString != 0 {
					goalOK = false // result strings are not compared
				}
			case *types.Pointer, *types.Interface, *types.Map, *types.Chan, *types.Signature:
				retTerms = append(retTerms, r.T)
				retLabels = append(retLabels, lbl)
				retKinds = append(retKinds, "nilness")
			case *types.Slice:
				retTerms = append(retTerms, r.T)
				retLabels = append(retLabels, lbl)
				retKinds = append(retKinds, "nilness-slice")
			}
		}
		// fields of the objects the parameters point to, after the call
		for _, pn := range params {
			if pn.kind != "ptr" {
				continue
			}
			owner := pn.ty.Underlying().(*types.Pointer).Elem()
			for i, f := range pn.fields {
				if f.kind != "int" && f.kind != "bool" {
					continue
				}
				ft := Select(heapGetIn(o.Heap, fieldMapName(owner, pn.fnames[i]), arrayOf(sortOf(f.ty))), pn.t)
				retTerms = append(retTerms, ft)
				retLabels = append(retLabels, "post."+pn.name+"."+pn.fnames[i])
				retKinds = append(retKinds, "scalar")
				s, _ := g.observe("post."+pn.name+"."+pn.fnames[i], "a_"+pn.name+"."+pn.fnames[i], f.ty)
				postStmts = append(postStmts, fmt.Sprintf("if a_%s != nil { %s }", pn.name, strings.TrimSpace(s)))
			}
		}
	}
	retVals, note, ok := g.solve(o, retTerms, small)
	if !ok {
		rf.ReplayNote = note
		return
	}
	predicted := map[string]string{}
	for i := range retTerms {
		e := retVals[i]
		switch retKinds[i] {
		case "scalar":
			if retTerms[i].S == SBool {
				predicted[retLabels[i]] = e.atom
			} else if v, ok := sxInt(e); ok {
				predicted[retLabels[i]] = v.String()
			}
		default:
			if v, ok := sxInt(e); ok {
				if v.Sign() == 0 {
					predicted[retLabels[i]] = "nil"
				} else {
					predicted[retLabels[i]] = "nonnil"
				}
			}
		}
	}
	// Go test
	var b strings.Builder
	var decl strings.Builder
	var args []string
	recv := ""
	sig := fn.Signature
	for i, pn := range params {
		l, ok := g.lit(pn)
		if !ok {
			rf.ReplayNote = fmt.Sprintf("replay not attempted: the value of parameter %s in the counterexample cannot be built (non-nil interface)", pn.name)
			return
		}
		fmt.Fprintf(&decl, "\ta_%s := %s\n", pn.name, l)
		if i == 0 && sig.Recv() != nil {
			recv = "a_" + pn.name
		} else {
			args = append(args, "a_"+pn.name)
		}
	}
	if sig.Variadic() && len(args) > 0 {
		args[len(args)-1] += "..."
	}
	call := ""
	if recv != "" {
		call = recv + "." + fn.Name() + "(" + strings.Join(args, ", ") + ")"
	} else {
		call = fn.Name() + "(" + strings.Join(args, ", ") + ")"
	}
	var rets []string
	var obsStmts strings.Builder
	for i := 0; i < sig.Results().Len(); i++ {
		rets = append(rets, fmt.Sprintf("r%d", i))
		if s, ok := g.observe(fmt.Sprintf("ret%d", i), fmt.Sprintf("r%d", i), sig.Results().At(i).Type()); ok {
			if _, want := predicted[fmt.Sprintf("ret%d", i)]; want {
				obsStmts.WriteString("\t" + s)
			}
		}
	}
	for _, s := range postStmts {
		obsStmts.WriteString("\t" + s + "\n")
	}
	var plabels []string
	for l := range predicted {
		plabels = append(plabels, l)
	}
	sort.Strings(plabels)
	var plines []string
	for _, l := range plabels {
		plines = append(plines, fmt.Sprintf("%q", l+" "+predicted[l]))
	}
	fmt.Fprintf(&b, "package %s\n\nimport (\n\t\"fmt\"\n\t\"runtime/debug\"\n\t\"sort\"\n\t\"strings\"\n\t\"testing\"\n", fn.Pkg.Pkg.Name())
	var ips []string
	for p := range g.imports {
		ips = append(ips, p)
	}
	sort.Strings(ips)
	for _, p := range ips {
		fmt.Fprintf(&b, "\t%s %q\n", g.imports[p], p)
	}
	b.WriteString(")\n\nvar _ = sort.Strings\nvar _ = strings.Join\nvar _ = fmt.Sprintf\nvar _ = debug.Stack\n\n")
	fmt.Fprintf(&b, "// replay of the counterexample for obligation\n//   %s\n// on the real %s\n", o.Name, o.Func)
	b.WriteString("func TestSxvReplay(t *testing.T) {\n")
	b.WriteString(decl.String())
	b.WriteString("\tvar obs []string\n\t_ = obs\n")
	if o.Kind == "safe" {
		loc := safeLocation(o.Name)
		if loc == "" {
			rf.ReplayNote = "replay not attempted: the obligation carries no source position to match a panic against"
			return
		}
		fmt.Fprintf(&b, "\tdefer func() {\n\t\tif r := recover(); r != nil {\n\t\t\tif strings.Contains(string(debug.Stack()), %q) {\n\t\t\t\tt.Fatalf(\"REPRODUCED: the real code panics at %s on the counterexample input: %%v\", r)\n\t\t\t}\n\t\t\tt.Logf(\"panic at another place than the obligation's: %%v\", r)\n\t\t}\n\t}()\n", loc, loc)
	} else {
		b.WriteString("\tdefer func() {\n\t\tif r := recover(); r != nil {\n\t\t\tt.Logf(\"panic (not the behaviour the counterexample predicts): %v\", r)\n\t\t}\n\t}()\n")
	}
	if len(rets) > 0 {
		fmt.Fprintf(&b, "\t%s := %s\n", strings.Join(rets, ", "), call)
		for _, r := range rets {
			fmt.Fprintf(&b, "\t_ = %s\n", r)
		}
	} else {
		fmt.Fprintf(&b, "\t%s\n", call)
	}
	b.WriteString(obsStmts.String())
	if o.Kind != "safe" {
		fmt.Fprintf(&b, "\twant := []string{%s}\n\tsort.Strings(obs)\n", strings.Join(plines, ", "))
		b.WriteString("\tt.Logf(\"observed:  %s\", strings.Join(obs, \"; \"))\n\tt.Logf(\"predicted: %s\", strings.Join(want, \"; \"))\n")
		b.WriteString("\tif strings.Join(obs, \"\\n\") == strings.Join(want, \"\\n\") {\n\t\tt.Fatalf(\"REPRODUCED: the real code returns exactly what the counterexample predicts, which violates the contract clause\")\n\t}\n")
	} else {
		b.WriteString("\tt.Logf(\"no panic on this input\")\n")
	}
	b.WriteString("}\n")
	rf.TestPkg = strings.TrimPrefix(strings.TrimPrefix(fn.Pkg.Pkg.Path(), repoModule), "/")
	rf.TestFile = b.String()
	if o.Kind != "safe" && (!goalOK || len(predicted) == 0) {
		rf.ReplayNote = "input built from the counterexample (test_file), but the violated clause mentions uninterpreted specification functions, external results or results that cannot be compared: the run is not counted as a reproduction"
		rf.TestFile = ""
		rf.InputOnly = b.String()
		return
	}
	out, failed := runOverlayTest(repo, rf.TestPkg, rf.TestFile, "TestSxvReplay")
	rf.GoTestOut = out
	rf.Reproduced = failed && strings.Contains(out, "REPRODUCED")
	if !rf.Reproduced {
		rf.ReplayNote = "the counterexample input was run on the real code but did not reproduce the violation there (the path depends on results of calls the verifier treats as arbitrary, or on aliasing the input literals do not have)"
	}
}

// safeLocation extracts "file.go:line" from the name of a safety obligation (…#safe[kind path/file.go:line]@…)
func safeLocation(name string) string {
	i := strings.Index(name, "#safe[")
	if i < 0 {
		return ""
	}
	d := name[i+len("#safe["):]
	if j := strings.Index(d, "]"); j >= 0 {
		d = d[:j]
	}
	fs := strings.Fields(d)
	if len(fs) < 2 || !strings.Contains(fs[len(fs)-1], ".go:") {
		return ""
	}
	return fs[len(fs)-1]
}

// goalIsConcrete: the violated condition mentions only inputs, the entry heap, allocation references and
// interpreted functions, so that equal inputs and outputs of a real run decide it the same way.
func goalIsConcrete(goal *Term) bool {
	syms := map[string]Sort{}
	fns := map[string]bool{}
	goal.collect(syms, fns, map[string]bool{})
	for f := range fns {
		switch f {
		case "strlen", "strbyte", "slen", "scap", "sarr", "soff":
		default:
			return false
		}
	}
	for s := range syms {
		if _, isGlobal := globalSyms[s]; isGlobal {
			continue
		}
		if strings.HasPrefix(s, "p.") || strings.HasSuffix(s, "@0") || uniqueSyms[s] || strings.HasPrefix(s, "ref!") || strings.HasPrefix(s, "slice!") {
			continue
		}
		return false
	}
	return true
}

var _ = ssa.NewProgram
