#!/usr/bin/env python3
"""Regenerates /verif/MANIFEST.json from tool/manifest_src.json (per-property texts) and the hook commits in /repo."""
import json, subprocess, sys, os
V = os.path.dirname(os.path.dirname(os.path.abspath(__file__)))
src = json.load(open(os.path.join(V, 'tool', 'manifest_src.json')))
props = [json.loads(l) for l in open(os.path.join(V, 'properties.jsonl'))]
hooks = subprocess.run(['git', '-C', '/repo', 'log', '--format=%H %s'], capture_output=True, text=True).stdout.strip().split('\n')
hook_commits = [l.split()[0] for l in hooks if 'verif hooks' in l]
checks, na = [], []
for p in props:
    pid = p['id']
    c = src['checks'].get(pid)
    if not c:
        na.append({'property_id': pid, 'reason': src['not_applicable'].get(pid, 'obligations not yet mechanised by the contract verifier (see DESIGN.md section 11)')})
        continue
    checks.append({
        'property_id': pid,
        'quick_cmd': f'bin/sxv check -p {pid} -tier quick',
        'thorough_cmd': f'bin/sxv check -p {pid} -tier thorough',
        'evidence_file': f'/verif/evidence/{pid}.json',
        'replay_cmd_template': 'bin/sxv replay {path}',
        'engine': 'sxv',
        'level_claimed': {'category': 'proof', 'text': c['text'], 'design_ref': c.get('design_ref', 'DESIGN.md section 6')},
        'level_note': c['note'],
        'technique': c.get('technique', 'contract-based deductive verification: weakest-precondition style VCs generated from go/ssa of the real code against //@ contracts, discharged by z3/cvc5'),
    })
m = {
    'version': 1,
    'setup_cmd': 'cd /verif/tool && GOFLAGS=-mod=mod GOPROXY=off GOSUMDB=off GOTOOLCHAIN=local go build -o ../bin/sxv .',
    'hooks': {
        'guard': 'verif',
        'enable': 'go build tag `verif`: sxv loads /repo with -tags=verif, which only adds the comment-only contracts_verif.go files',
        'baseline_off_cmd': 'cd /repo && GOFLAGS=-mod=mod GOPROXY=off GOSUMDB=off GOTOOLCHAIN=local go test -vet=off -count=1 ./...',
        'source_commits': hook_commits,
        'add_only': True,
    },
    'engines': [{'name': 'sxv', 'path': '/verif/tool', 'serves_properties': [c['property_id'] for c in checks],
                 'kind_free_text': 'deductive verifier for Go written for this task: contracts as //@ comments, VC generation by symbolic execution of go/ssa with loop invariants, modular calls, segment tables for goroutine bodies; SMT back ends z3 5.1.0, z3 4.8.12, cvc5 1.0.3'}],
    'checks': checks,
    'not_applicable': na,
    'notes': src.get('notes', ''),
}
json.dump(m, open(os.path.join(V, 'MANIFEST.json'), 'w'), indent=1)
print('checks', len(checks), 'not_applicable', len(na))
