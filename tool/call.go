package main

import (
	"math/big"
	"os"
	"fmt"
	"go/types"
	"strings"

	"golang.org/x/tools/go/ssa"
)

func normName(s string) string {
	return strings.ReplaceAll(s, repoModule+"/", "")
}

func calleeDisplay(fn *ssa.Function) string { return normName(fn.String()) }

func nameMatches(full, pat string) bool {
	if full == pat {
		return true
	}
	if len(funcRenames) > 0 {
		// a call pattern or observe entry that names a function which was renamed since
		i := strings.LastIndexAny(pat, "./)")
		if nn, ok := funcRenames[pat[i+1:]]; ok && nn != pat[i+1:] {
			if nameMatches1(full, pat[:i+1]+nn) {
				return true
			}
		}
	}
	for old, nn := range typeRenamesShort {
		if strings.Contains(pat, old) {
			if p2 := wordReplace(pat, old, nn); p2 != pat && nameMatches1(full, p2) {
				return true
			}
		}
	}
	return nameMatches1(full, pat)
}

func nameMatches1(full, pat string) bool {
	if full == pat {
		return true
	}
	if i := strings.Index(full, " aka "); i >= 0 {
		return nameMatches1(full[:i], pat) || nameMatches1(full[i+5:], pat)
	}
	if strings.HasSuffix(full, pat) && len(full) > len(pat) {
		c := full[len(full)-len(pat)-1]
		return c == '.' || c == '/' || c == '(' || c == ')' || c == '*' || c == ' '
	}
	// "(*T).m" names the method m of T in any package: "(*pkg/path.T).m"
	if strings.HasPrefix(pat, "(*") && strings.HasPrefix(full, "(*") {
		rest := pat[2:]
		if strings.HasSuffix(full, rest) && len(full) > len(rest)+2 {
			c := full[len(full)-len(rest)-1]
			return c == '.' || c == '/'
		}
	}
	return false
}

// static ordinal of instruction ins among the call-like instructions of its function that target `name`
func (ex *Executor) callOrdinal(fn *ssa.Function, ins ssa.Instruction, name string) int {
	n := 0
	for _, b := range fn.Blocks {
		for _, i := range b.Instrs {
			var cc *ssa.CallCommon
			switch c := i.(type) {
			case *ssa.Call:
				cc = &c.Call
			case *ssa.Defer:
				cc = &c.Call
			case *ssa.Go:
				cc = &c.Call
			}
			if cc == nil {
				continue
			}
			if ex.staticCalleeName(cc) != name {
				continue
			}
			if i == ins {
				return n
			}
			n++
		}
	}
	return -1
}

func (ex *Executor) staticCalleeName(cc *ssa.CallCommon) string {
	if cc.IsInvoke() {
		return "invoke " + ifaceMethodKey(cc)
	}
	if sc := cc.StaticCallee(); sc != nil {
		return calleeDisplay(sc)
	}
	if b, ok := cc.Value.(*ssa.Builtin); ok {
		return "builtin " + b.Name()
	}
	if n, ok := cc.Value.Type().(*types.Named); ok {
		// a value of a named function type can also be observed under the name of its type, whatever variable,
		// slice element or field it is read from
		return "dynamic " + dynName(cc.Value) + " aka " + n.Obj().Name()
	}
	return "dynamic " + dynName(cc.Value)
}

// dynName: a stable name for a function value that is not a static callee: the captured variable,
// parameter or struct field it was read from (never an SSA temporary).
func dynName(v ssa.Value) string {
	switch x := v.(type) {
	case *ssa.UnOp:
		switch a := x.X.(type) {
		case *ssa.FreeVar:
			return a.Name()
		case *ssa.Alloc:
			if a.Comment != "" {
				return a.Comment
			}
		case *ssa.FieldAddr:
			if pt, ok := a.X.Type().Underlying().(*types.Pointer); ok {
				if st := structOf(pt.Elem()); st != nil {
					return "." + st.Field(a.Field).Name()
				}
			}
		case *ssa.Global:
			return a.Name()
		}
	case *ssa.Parameter:
		return x.Name()
	case *ssa.FreeVar:
		return x.Name()
	case *ssa.Field:
		if st := structOf(x.X.Type()); st != nil {
			return "." + st.Field(x.Field).Name()
		}
	}
	// a value the source names (x, cancel := f()): the name of that variable
	if refs := v.Referrers(); refs != nil {
		for _, r := range *refs {
			if d, ok := r.(*ssa.DebugRef); ok && d.Object() != nil && !d.IsAddr {
				return d.Object().Name()
			}
		}
	}
	return v.Name()
}

func ifaceMethodKey(cc *ssa.CallCommon) string {
	recvT := cc.Value.Type()
	// the interface that declares the method
	if sig, ok := cc.Method.Type().(*types.Signature); ok && sig.Recv() != nil {
		if _, isNamed := sig.Recv().Type().(*types.Named); isNamed {
			recvT = sig.Recv().Type()
		}
	}
	if n, ok := recvT.(*types.Named); ok && n.Obj().Pkg() != nil {
		return normName(n.Obj().Pkg().Path()) + "." + n.Obj().Name() + "." + cc.Method.Name()
	}
	if n, ok := recvT.(*types.Named); ok {
		return n.Obj().Name() + "." + cc.Method.Name() // error.Error
	}
	return "?." + cc.Method.Name()
}

func (ex *Executor) execCall(st *State, fr *Frame, v *ssa.Call, cc *ssa.CallCommon, ins ssa.Instruction) bool {
	var args []Val
	for _, a := range cc.Args {
		args = append(args, ex.value(st, fr, a))
	}
	fv := ex.value(st, fr, cc.Value)
	return ex.dispatchCall(st, fr, cc, fv, args, v, ins, false)
}

func (ex *Executor) setResult(st *State, fr *Frame, rv ssa.Value, res []Val) {
	if rv == nil {
		return
	}
	switch len(res) {
	case 0:
	case 1:
		r := res[0]
		if r.Ty == nil {
			r.Ty = rv.Type()
		}
		fr.vals[rv] = r
	default:
		fr.vals[rv] = Val{IsTuple: true, Fs: res, Ty: rv.Type()}
	}
}

func (ex *Executor) opaque(name string) bool {
	if ex.unitSpec == nil {
		return false
	}
	for _, o := range ex.unitSpec.Opaque {
		if nameMatches(name, o) {
			return true
		}
	}
	return false
}

func (ex *Executor) observed(name string) bool {
	if ex.unitSpec == nil {
		return false
	}
	for _, o := range ex.unitSpec.Observe {
		if nameMatches(name, o) {
			return true
		}
	}
	return false
}

// effectful: the callee is a repo function whose own contract is an event table (it calls, sends or spawns in an
// observable way). Calling it is itself an effect, so the call is an event of the caller even when the caller's
// contract does not list it under observe: an added call cannot hide behind the callee's contract.
var autoObserve = os.Getenv("SXV_NO_AUTO_OBSERVE") == ""

func (ex *Executor) effectful(cc *ssa.CallCommon) bool {
	if !autoObserve || cc.IsInvoke() {
		return false
	}
	sc := cc.StaticCallee()
	if sc == nil {
		return false
	}
	if sc.Pkg != nil && sc.Signature.Recv() == nil {
		// library calls that stall or end the process are effects wherever they occur
		switch sc.Pkg.Pkg.Path() + "." + sc.Name() {
		case "time.Sleep", "os.Exit", "runtime.Goexit", "syscall.Exit", "log.Fatal", "log.Fatalf", "log.Fatalln", "log.Panic", "log.Panicf", "log.Panicln":
			return true
		}
	}
	spec := ex.S.Funcs[funcKey(sc)]
	if spec == nil || spec.Inline || spec.IsExt {
		return false
	}
	if len(spec.EntryRows) > 0 || len(spec.ExitRows) > 0 {
		return true
	}
	for _, l := range spec.Loops {
		if len(l.Rows) > 0 {
			return true
		}
	}
	return false
}

func (ex *Executor) dispatchCall(st *State, fr *Frame, cc *ssa.CallCommon, fv Val, args []Val, rv *ssa.Call, ins ssa.Instruction, deferred bool) bool {
	var resVal ssa.Value
	if rv != nil {
		resVal = rv
	}
	name := ex.staticCalleeName(cc)
	// appending one ASCII character to a strings.Builder / bytes.Buffer is the same event whichever of WriteRune,
	// WriteByte or WriteString("c") is used for it
	if (strings.HasPrefix(name, "(*strings.Builder).") || strings.HasPrefix(name, "(*bytes.Buffer).")) && len(args) == 2 {
		recvName := name[:strings.Index(name, ").")+2]
		switch name[len(recvName):] {
		case "WriteByte":
			if t := args[1].T; t != nil && t.IsNum() && t.Num.Sign() >= 0 && t.Num.Cmp(big.NewInt(128)) < 0 {
				name = recvName + "WriteRune"
			}
		case "WriteString":
			if t := args[1].T; t != nil {
				if lit, ok := litOf(t); ok && len(lit) == 1 && lit[0] < 128 {
					name = recvName + "WriteRune"
					args = append([]Val(nil), args...)
					args[1] = Val{T: Num(int64(lit[0])), Ty: types.Typ[types.Int32]}
				}
			}
		}
	}
	observedHere := ex.observed(name) || ex.effectful(cc)
	ord := ex.callOrdinal(fr.fn, ins, name)
	if !deferred {
		ex.runAnchors(st, fr, "call", name, ord, "before")
	}
	var preSnaps map[int][]Val
	var preHeap map[string]*Term
	if observedHere && fr.depth <= ex.observeDepth() {
		sargs := args
		if cc.IsInvoke() && len(args) == len(cc.Args) {
			sargs = append([]Val{fv}, args...)
		}
		preSnaps = ex.snapSlices(st, sargs) // slice arguments as they are when the call starts
		preHeap = copyHeap(st.heap)
	}
	finish := func(res []Val) bool {
		if observedHere && fr.depth <= ex.observeDepth() {
			eargs := args
			if cc.IsInvoke() && len(args) == len(cc.Args) {
				// interface method: the receiver is the first event argument
				eargs = append([]Val{fv}, args...)
			}
			ev := &Event{Kind: "call", Fn: name, Args: eargs, Res: res, Pos: ex.pos(ins)}
			ev.Snaps = preSnaps
			ev.Heap = preHeap
			st.events = append(st.events, ev)
		}
		if !deferred {
			ex.setResult(st, fr, resVal, res)
			ex.runAnchors(st, fr, "call", name, ord, "after")
		}
		return true
	}
	// ---- builtins
	if b, ok := cc.Value.(*ssa.Builtin); ok {
		res, cont := ex.builtin(st, fr, b, cc, args, ins)
		if !cont {
			return false
		}
		return finish(res)
	}
	var fn *ssa.Function
	var recvIface *Val
	if cc.IsInvoke() {
		if fv.T != nil && fv.T.IsNum() && fv.T.Num.Sign() == 0 {
			// method call on an interface value that is the constant nil on this path
			ex.safeObl(st, ins, "nil", tFalse, "method call on a nil interface is unreachable")
		}
		// context.Context.Done is native
		key := ifaceMethodKey(cc)
		if key == "context.Context.Done" {
			return finish([]Val{{T: App("ctxdone", SInt, fv.T), Ty: cc.Signature().Results().At(0).Type()}})
		}
		if info, ok := ex.ifaceInfo[fv.T.Key()]; ok {
			if m := ex.P.Prog.LookupMethod(info.ty, cc.Method.Pkg(), cc.Method.Name()); m != nil {
				fn = m
				args = append([]Val{info.payload}, args...)
			}
		}
		if fn == nil {
			recvIface = &fv
			spec := ex.S.Funcs[key]
			if spec != nil && spec.IsIface {
				res, ok := ex.applyContract(st, fr, spec, nil, cc.Signature(), append([]Val{fv}, args...), ins, name, ord)
				if !ok {
					return false
				}
				return finish(res)
			}
			// no contract: havoc results
			if !observedHere {
				ex.Assumed["interface method "+key+" without contract: results havocked, tracked heap unchanged"] = true
			}
			return finish(ex.havocResults(st, cc.Signature(), "inv."+cc.Method.Name()))
		}
	} else if sc := cc.StaticCallee(); sc != nil {
		fn = sc
		if fv.Fn != nil && len(fv.Fn.Bind) > 0 {
			// direct call of a closure literal
		}
	} else if fv.Fn != nil {
		fn = fv.Fn.Fn
	}
	_ = recvIface
	if fn == nil {
		// unknown function value: typed function contracts (functype specs)
		if spec := ex.funcTypeSpec(cc.Value.Type()); spec != nil {
			ex.Assumed["assumed contract of the function type "+strings.TrimPrefix(spec.Key, "functype ")+" (every value of that type is taken to satisfy it)"] = true
			res, ok := ex.applyContract(st, fr, spec, nil, cc.Signature(), args, ins, name, ord)
			if !ok {
				return false
			}
			return finish(res)
		}
		if !observedHere {
			ex.Assumed["call of unknown function value in "+fr.fn.String()+": results havocked, memory behind its pointer arguments (one level) havocked, rest of the tracked heap unchanged"] = true
		}
		ex.havocPointees(st, args)
		return finish(ex.havocResults(st, cc.Signature(), "dyn"))
	}
	var binds []Val
	if fv.Fn != nil && fv.Fn.Fn == fn {
		binds = fv.Fn.Bind
	} else if mc, ok := cc.Value.(*ssa.MakeClosure); ok {
		for _, b := range mc.Bindings {
			binds = append(binds, ex.value(st, fr, b))
		}
	}
	dname := calleeDisplay(fn)
	// ---- native models
	if res, ok, cont := ex.native(st, fr, fn, dname, args, ins, resVal, name, ord, deferred); ok {
		if !cont {
			return false
		}
		if res == nil && resVal != nil && cc.Signature().Results().Len() > 0 {
			return true // native installed a continuation
		}
		return finish(res)
	}
	key := funcKey(fn)
	var spec *FuncSpec
	if key != "" {
		spec = ex.S.Funcs[key]
	} else {
		spec = ex.S.Funcs[dname]
	}
	inRepoFn := key != "" && len(fn.Blocks) > 0
	if spec != nil && !spec.Inline && !(fr.unit && fn == fr.fn) {
		ex.callBinds = binds
		res, ok := ex.applyContract(st, fr, spec, fn, fn.Signature, args, ins, name, ord)
		ex.callBinds = nil
		if !ok {
			return false
		}
		return finish(res)
	}
	if inRepoFn && ex.opaque(name) {
		ex.Assumed["opaque call of "+dname+" in "+ex.unitKey+": its results and its static write set are unknown afterwards"] = true
		st.havocNames(ex.writtenIn(fn))
		na := Fresh("alloc", SInt)
		st.assume(Ge(na, st.alloc))
		st.alloc = na
		return finish(ex.havocResults(st, fn.Signature, "opq."+fn.Name()))
	}
	if inRepoFn {
		if fr.depth >= ex.maxDepth {
			ex.errf("%s: inlining depth exceeded at %s", ex.unitKey, dname)
			return finish(ex.havocResults(st, fn.Signature, "deep"))
		}
		for _, f := range st.frames {
			if f.fn == fn {
				ex.errf("%s: recursive call of %s is outside the modelled subset", ex.unitKey, dname)
				return finish(ex.havocResults(st, fn.Signature, "rec"))
			}
		}
		fspec := spec
		if spec != nil && spec.Inline {
			fspec = nil // inlined bodies are executed as they are: the callee's own loop cuts and rows do not apply
		}
		nf := ex.newFrame(fn, fspec, fr.depth+1)
		if len(args) != len(fn.Params) {
			ex.errf("%s: arity mismatch calling %s", ex.unitKey, dname)
			return finish(ex.havocResults(st, fn.Signature, "arity"))
		}
		for i, p := range fn.Params {
			a := args[i]
			if a.Ty == nil {
				a.Ty = p.Type()
			}
			nf.vals[p] = a
			nf.params[p.Name()] = a
			nf.locals[p.Name()] = localRef{v: a}
		}
		for i, v := range fn.FreeVars {
			if i < len(binds) {
				nf.vals[v] = binds[i]
				nf.locals[v.Name()] = localRef{v: binds[i], isAddr: true}
			} else {
				nf.vals[v] = ex.freshOfType(st, "fv", v.Type())
			}
		}
		nf.callInstr = ins
		nf.deferred = deferred
		nf.anchorName = name
		nf.anchorOrd = ord
		nf.oldHeap = copyHeap(st.heap)
		nf.oldAlloc = st.alloc
		nf.blk = fn.Blocks[0]
		if observedHere {
			// observed repo function that is inlined: record the call itself (results are not bound)
			st.events = append(st.events, &Event{Kind: "call", Fn: name, Args: args, Pos: ex.pos(ins)})
		}
		st.frames = append(st.frames, nf)
		return true
	}
	// external function without contract
	if spec == nil {
		if !observedHere {
			ex.Assumed["external "+dname+" without contract: results havocked, memory reachable from pointer arguments (one level) havocked, rest of the tracked heap unchanged"] = true
		}
		ex.havocPointees(st, args)
		return finish(ex.havocResults(st, fn.Signature, "ext."+fn.Name()))
	}
	res, ok := ex.applyContract(st, fr, spec, fn, fn.Signature, args, ins, name, ord)
	if !ok {
		return false
	}
	return finish(res)
}

// havocPointees: an external callee may write through the pointers it is given (also when they travel inside an
// interface value): local cells get a fresh value, pointed-to structs get fresh fields.
func (ex *Executor) havocPointees(st *State, args []Val) {
	for _, a := range args {
		if fv := ex.recover(a); fv.Fn != nil && fv.Fn.Fn != nil && len(fv.Fn.Fn.Blocks) > 0 {
			// a closure handed to code outside the contracts may be run by it (sync.Once.Do, sort.Search, ...): everything
			// the closure's body can write is unknown afterwards
			st.havocNames(ex.writtenIn(fv.Fn.Fn))
			continue
		}
		if a.T != nil {
			if info, ok := ex.ifaceInfo[a.T.Key()]; ok {
				a = info.payload
			}
		}
		if a.Ty == nil {
			continue
		}
		pt, ok := a.Ty.Underlying().(*types.Pointer)
		if !ok {
			continue
		}
		el := pt.Elem()
		if isBigIntPtr(a.Ty) {
			continue
		}
		if n, ok := el.(*types.Named); ok && n.Obj().Pkg() != nil && !inRepo(n.Obj().Pkg()) {
			// objects of library types (sync.WaitGroup, net.Dialer, ...) are opaque to the contracts
			continue
		}
		if _, isArr := el.Underlying().(*types.Array); isArr {
			continue
		}
		ex.store(st, a, ex.freshValOfType(st, "extw", el))
	}
}

// freshValOfType: like freshOfType, but builds composite values for structs
func (ex *Executor) freshValOfType(st *State, label string, ty types.Type) Val {
	if s := structOf(ty); s != nil && !isBigIntPtr(types.NewPointer(ty)) {
		v := Val{Ty: ty}
		for i := 0; i < s.NumFields(); i++ {
			v.Fs = append(v.Fs, ex.freshValOfType(st, label+"."+s.Field(i).Name(), s.Field(i).Type()))
		}
		return v
	}
	return ex.freshOfType(st, label, ty)
}

// snapSlices: the elements of short slice arguments as they are when the call happens (a row condition that indexes
// a bound slice argument means the argument as passed, not as it may look after later writes)
func (ex *Executor) snapSlices(st *State, args []Val) map[int][]Val {
	var out map[int][]Val
	for i, a := range args {
		if a.T == nil || a.Ty == nil {
			continue
		}
		sl, ok := a.Ty.Underlying().(*types.Slice)
		if !ok {
			continue
		}
		n := ex.slen(a.T)
		if !n.IsNum() || !n.Num.IsInt64() || n.Num.Int64() > 8 {
			continue
		}
		var elems []Val
		for k := int64(0); k < n.Num.Int64(); k++ {
			elems = append(elems, ex.sliceElem(st, nil, a.T, Num(k), sl.Elem()))
		}
		if out == nil {
			out = map[int][]Val{}
		}
		out[i] = elems
	}
	return out
}

func (ex *Executor) observeDepth() int {
	if ex.unitSpec != nil && ex.unitSpec.Opts["observe-depth"] != "" {
		var d int
		fmt.Sscanf(ex.unitSpec.Opts["observe-depth"], "%d", &d)
		return d
	}
	return 99
}

func (ex *Executor) funcTypeSpec(t types.Type) *FuncSpec {
	if n, ok := t.(*types.Named); ok && n.Obj().Pkg() != nil {
		return ex.S.Funcs["functype "+normName(n.Obj().Pkg().Path())+"."+n.Obj().Name()]
	}
	return nil
}

func (ex *Executor) havocResults(st *State, sig *types.Signature, label string) []Val {
	var res []Val
	for i := 0; i < sig.Results().Len(); i++ {
		res = append(res, ex.freshOfType(st, label, sig.Results().At(i).Type()))
	}
	return res
}

// applyContract: modular call. Checks requires, havocs the modifies set, assumes ensures.
func (ex *Executor) applyContract(st *State, fr *Frame, spec *FuncSpec, fn *ssa.Function, sig *types.Signature, args []Val, ins ssa.Instruction, name string, ord int) ([]Val, bool) {
	env := &SpecEnv{ex: ex, st: st, vars: map[string]Val{}, pkgRel: spec.Pkg, fr: nil, calleeFn: fn}
	// parameter names
	var pnames []string
	if fn != nil && len(fn.Params) == len(args) {
		for _, p := range fn.Params {
			pnames = append(pnames, p.Name())
		}
	}
	if len(spec.Params) > 0 {
		pnames = nil
		for _, p := range spec.Params {
			pnames = append(pnames, p.Name)
		}
	}
	if len(pnames) != len(args) {
		// fall back to signature names (+ receiver "self")
		pnames = nil
		if sig.Recv() != nil || len(args) == sig.Params().Len()+1 {
			pnames = append(pnames, "self")
		}
		for i := 0; i < sig.Params().Len(); i++ {
			n := sig.Params().At(i).Name()
			if n == "" || n == "_" {
				n = fmt.Sprintf("arg%d", i)
			}
			pnames = append(pnames, n)
		}
	}
	if len(pnames) != len(args) {
		ex.errf("%s: contract %s: %d parameter names for %d arguments", ex.unitKey, spec.Key, len(pnames), len(args))
		return ex.havocResults(st, sig, "bad"), true
	}
	for i, n := range pnames {
		env.vars[n] = args[i]
		env.vars[fmt.Sprintf("arg%d", i)] = args[i]
	}
	// a closure's contract may talk about its captured variables: they denote the cells bound at the call
	if fn != nil && len(fn.FreeVars) > 0 && len(ex.callBinds) == len(fn.FreeVars) {
		for i, fv := range fn.FreeVars {
			b := ex.callBinds[i]
			if b.Ty == nil {
				b.Ty = fv.Type()
			}
			if _, clash := env.vars[fv.Name()]; !clash {
				env.vars[fv.Name()] = ex.load(st, b)
			}
		}
	}
	if spec.IsExt || spec.IsIface || spec.Trusted {
		ex.Assumed["assumed contract: "+spec.Key] = true
	}
	for i, c := range spec.Requires {
		v, err := ex.evalSpec(c.Expr, env)
		if err != nil {
			ex.calleeContractErr(spec, fn, "requires", c.Text, err)
			return nil, false
		}
		ex.addObl(st, "pre", fmt.Sprintf("%s#%d: %s", name, ord, clauseLabel(c, i)), v.T, "precondition of "+spec.Key+": "+c.Text, c.Tags)
		st.assume(v.T)
	}
	old := copyHeap(st.heap)
	oldAlloc := st.alloc
	// havoc
	if spec.HasMod {
		for _, loc := range spec.Modifies {
			hn, idx, srt, err := ex.evalLoc(loc, env)
			if err != nil {
				ex.errf("%s: modifies of %s: %v", ex.unitKey, spec.Key, err)
				return nil, false
			}
			st.heap[hn] = Store(st.heapGet(hn, arrayOf(srt)), idx, Fresh("mod", srt))
		}
	} else if fn != nil && funcKey(fn) != "" {
		st.havocNames(ex.writtenIn(fn))
	}
	na := Fresh("alloc", SInt)
	st.assume(Ge(na, st.alloc))
	st.alloc = na
	st.rebirth(old)
	// results
	var res []Val
	if spec.Pure {
		// deterministic function of its arguments
		var ts []*Term
		for _, a := range args {
			ts = append(ts, ex.asTerm(st, a))
		}
		for i := 0; i < sig.Results().Len(); i++ {
			ty := sig.Results().At(i).Type()
			t := App(fmt.Sprintf("pure.%s.%d", sanitize(spec.Key), i), sortOf(ty), ts...)
			v := Val{T: t, Ty: ty}
			ex.loadedFacts(st, v)
			if isString(ty) {
				st.assume(Ge(strLen(t), Num(0)))
			}
			res = append(res, v)
		}
	} else {
		res = ex.havocResults(st, sig, "ret."+sanitize(name))
	}
	env2 := &SpecEnv{ex: ex, st: st, vars: env.vars, pkgRel: spec.Pkg, oldHeap: old, oldAlloc: oldAlloc, assuming: true, calleeFn: fn}
	for i, r := range res {
		env2.vars[fmt.Sprintf("ret%d", i)] = r
		if i == 0 {
			env2.vars["ret"] = r
		}
		if n := sig.Results().At(i).Name(); n != "" && n != "_" {
			if _, clash := env2.vars[n]; !clash {
				env2.vars[n] = r
			}
		}
	}
	for i, n := range spec.Results {
		if i < len(res) {
			env2.vars[n] = res[i]
		}
	}
	for _, c := range spec.Ensures {
		v, err := ex.evalSpec(c.Expr, env2)
		if err != nil {
			if strings.Contains(err.Error(), "is not a known closure") {
				// a clause about the identity of a returned closure is proved for the callee but cannot be expressed over
				// the opaque result at the call site: nothing is assumed from it (sound: the caller knows less)
				ex.Notes[fmt.Sprintf("ensures of %s about a closure's captures is not used at call sites", spec.Key)] = true
				continue
			}
			ex.calleeContractErr(spec, fn, "ensures", c.Text, err)
			return nil, false
		}
		st.assume(v.T)
	}
	return res, true
}

// ---------------------------------------------------------------------------------------------
// builtins

func (ex *Executor) builtin(st *State, fr *Frame, b *ssa.Builtin, cc *ssa.CallCommon, args []Val, ins ssa.Instruction) ([]Val, bool) {
	intT := types.Typ[types.Int]
	switch b.Name() {
	case "len":
		a := args[0]
		switch a.Ty.Underlying().(type) {
		case *types.Slice:
			return []Val{{T: ex.slen(a.T), Ty: intT}}, true
		case *types.Basic:
			return []Val{{T: strLen(a.T), Ty: intT}}, true
		case *types.Map:
			t := App("maplen", SInt, Select(st.heapGet("M.dom", SAAIB), a.T))
			st.assume(Ge(t, Num(0)))
			return []Val{{T: t, Ty: intT}}, true
		case *types.Chan:
			t := Fresh("chanlen", SInt)
			st.assume(Ge(t, Num(0)))
			return []Val{{T: t, Ty: intT}}, true
		case *types.Array:
			return []Val{{T: Num(a.Ty.Underlying().(*types.Array).Len()), Ty: intT}}, true
		}
	case "cap":
		a := args[0]
		switch a.Ty.Underlying().(type) {
		case *types.Slice:
			return []Val{{T: ex.scap(a.T), Ty: intT}}, true
		case *types.Chan:
			t := App("chancap", SInt, a.T)
			st.assume(Ge(t, Num(0)))
			return []Val{{T: t, Ty: intT}}, true
		}
	case "append":
		return []Val{ex.appendSlices(st, args[0], args[1], cc.Args[0].Type())}, true
	case "copy":
		dst, src := args[0], args[1]
		var srcLen *Term
		if isString(cc.Args[1].Type()) {
			srcLen = strLen(src.T)
		} else {
			srcLen = ex.slen(src.T)
		}
		n := Ite(Lt(ex.slen(dst.T), srcLen), ex.slen(dst.T), srcLen)
		// contents: dst[i] = src[i] for i < n  (quantified fact over the new element array)
		elemTy := cc.Args[0].Type().Underlying().(*types.Slice).Elem()
		srt := sortOf(elemTy)
		name := elemNameT(elemTy)
		e := st.heapGet(name, arrayOf(arrayOf(srt)))
		newArr := Fresh("copied", arrayOf(srt))
		oldArr := Select(e, ex.sarr(dst.T))
		i := Sym("i!q", SInt)
		var srcAt *Term
		if isString(cc.Args[1].Type()) {
			srcAt = App("strbyte", SInt, src.T, i)
		} else {
			srcAt = Select(Select(e, ex.sarr(src.T)), Add(ex.soff(src.T), i))
		}
		st.assume(Forall([]*Term{i}, Implies(And(Le(Num(0), i), Lt(i, n)), Eq(Select(newArr, Add(ex.soff(dst.T), i)), srcAt))))
		j := Sym("j!q", SInt)
		st.assume(Forall([]*Term{j}, Implies(Or(Lt(j, ex.soff(dst.T)), Ge(j, Add(ex.soff(dst.T), n))), Eq(Select(newArr, j), Select(oldArr, j)))))
		st.heapSet(name, Store(e, ex.sarr(dst.T), newArr))
		return []Val{{T: n, Ty: intT}}, true
	case "close":
		st.events = append(st.events, &Event{Kind: "close", Chan: args[0].T, Pos: ex.pos(ins)})
		return nil, true
	case "delete":
		m, k := args[0], args[1]
		dom := st.heapGet("M.dom", SAAIB)
		st.heapSet("M.dom", Store(dom, m.T, Store(Select(dom, m.T), ex.asTerm(st, k), tFalse)))
		return nil, true
	case "print", "println":
		return nil, true
	case "recover":
		return []Val{{T: Num(0), Ty: cc.Signature().Results().At(0).Type()}}, true
	case "ssa:wrapnilchk":
		return []Val{args[0]}, true
	case "min", "max":
		r := args[0].T
		for _, a := range args[1:] {
			if b.Name() == "min" {
				r = Ite(Lt(a.T, r), a.T, r)
			} else {
				r = Ite(Gt(a.T, r), a.T, r)
			}
		}
		return []Val{{T: r, Ty: args[0].Ty}}, true
	}
	ex.errf("%s: builtin %s on %v not modelled", ex.unitKey, b.Name(), cc.Args[0].Type())
	return ex.havocResults(st, cc.Signature(), "builtin"), true
}

func (ex *Executor) appendSlices(st *State, s, x Val, sty types.Type) Val {
	elemTy := sty.Underlying().(*types.Slice).Elem()
	srt := sortOf(elemTy)
	name := elemNameT(elemTy)
	e := st.heapGet(name, arrayOf(arrayOf(srt)))
	var xlen *Term
	xIsString := x.Ty != nil && isString(x.Ty)
	if xIsString {
		xlen = strLen(x.T)
	} else {
		xlen = ex.slen(x.T)
	}
	sl := ex.slen(s.T)
	nl := Add(sl, xlen)
	arr := st.newRef("appended")
	nc := Fresh("cap", SInt)
	st.assume(Ge(nc, nl))
	// new backing array (we always model a reallocation: aliasing of the old array is not relied on anywhere in sx)
	newArr := Fresh("appendarr", arrayOf(srt))
	oldArr := Select(e, ex.sarr(s.T))
	if sl.IsNum() && sl.Num.IsInt64() && sl.Num.Int64() <= 16 {
		for k := int64(0); k < sl.Num.Int64(); k++ {
			st.assume(Eq(Select(newArr, Num(k)), Select(oldArr, Add(ex.soff(s.T), Num(k)))))
		}
	} else {
		i := Sym("i!q", SInt)
		st.assume(Forall([]*Term{i}, Implies(And(Le(Num(0), i), Lt(i, sl)), Eq(Select(newArr, i), Select(oldArr, Add(ex.soff(s.T), i))))))
	}
	if xlen.IsNum() && xlen.Num.IsInt64() && xlen.Num.Int64() <= 16 && !xIsString {
		xa := Select(e, ex.sarr(x.T))
		for k := int64(0); k < xlen.Num.Int64(); k++ {
			st.assume(Eq(Select(newArr, Add(sl, Num(k))), Select(xa, Add(ex.soff(x.T), Num(k)))))
		}
	} else if !xIsString {
		xa := Select(e, ex.sarr(x.T))
		i := Sym("j!q", SInt)
		st.assume(Forall([]*Term{i}, Implies(And(Le(Num(0), i), Lt(i, xlen)), Eq(Select(newArr, Add(sl, i)), Select(xa, Add(ex.soff(x.T), i))))))
	}
	st.heapSet(name, Store(e, arr, newArr))
	return ex.mkSlice(st, arr, Num(0), nl, nc, sty)
}

// ---------------------------------------------------------------------------------------------
// native models of a few library functions

func (ex *Executor) native(st *State, fr *Frame, fn *ssa.Function, dname string, args []Val, ins ssa.Instruction, resVal ssa.Value, aname string, aord int, deferred bool) (res []Val, handled bool, cont bool) {
	switch dname {
	case "fmt.Sprintf", "fmt.Errorf":
		// deterministic function of the format and the argument values (when the variadic slice has a known length)
		ts := []*Term{args[0].T}
		n := ex.slen(args[1].T)
		if n.IsNum() && n.Num.IsInt64() && n.Num.Int64() <= 8 {
			for k := int64(0); k < n.Num.Int64(); k++ {
				ev := ex.sliceElem(st, nil, args[1].T, Num(k), types.NewInterfaceType(nil, nil))
				ts = append(ts, ev.T)
			}
			t := App(fmt.Sprintf("%s.%d", sanitize(dname), len(ts)-1), SInt, ts...)
			if dname == "fmt.Sprintf" {
				if ct := ex.sprintfConcat(args[0].T, ts[1:]); ct != nil {
					t = ct
				}
			}
			if dname == "fmt.Errorf" {
				st.assume(Neq(t, Num(0)))
				return []Val{{T: t, Ty: fn.Signature.Results().At(0).Type()}}, true, true
			}
			st.assume(Ge(strLen(t), Num(0)))
			return []Val{{T: t, Ty: types.Typ[types.String]}}, true, true
		}
		return nil, false, true
	case "errors.New":
		t := App("errors.New", SInt, args[0].T, Fresh("errid", SInt))
		st.assume(Neq(t, Num(0)))
		return []Val{{T: t, Ty: fn.Signature.Results().At(0).Type()}}, true, true
	case "sort.Search":
		return ex.nativeSortSearch(st, fr, fn, args, ins, resVal, aname, aord)
	}
	return nil, false, true
}

// sprintfConcat: for a literal format made of plain text and the verbs %s and %d only, Sprintf is the concatenation of
// the text pieces and the renderings of its arguments: a string argument renders as itself, anything else as an
// uninterpreted function of the value (fmt.s / fmt.d). nil when the format is not of that shape.
func (ex *Executor) sprintfConcat(format *Term, argv []*Term) *Term {
	f, ok := litOf(format)
	if !ok {
		return nil
	}
	var parts []*Term
	k := 0
	for i := 0; i < len(f); {
		j := strings.IndexByte(f[i:], '%')
		if j < 0 {
			parts = append(parts, strLit(f[i:]))
			break
		}
		if j > 0 {
			parts = append(parts, strLit(f[i:i+j]))
		}
		i += j
		if i+1 >= len(f) || k >= len(argv) {
			return nil
		}
		a := argv[k]
		k++
		switch f[i+1] {
		case 's':
			if info, ok := ex.ifaceInfo[a.Key()]; ok && info.ty != nil && isString(info.ty) && info.payload.T != nil {
				parts = append(parts, info.payload.T)
			} else {
				parts = append(parts, App("fmt.s", SInt, a))
			}
		case 'd':
			parts = append(parts, App("fmt.d", SInt, a))
		default:
			return nil
		}
		i += 2
	}
	if k != len(argv) {
		return nil
	}
	return StrCat(parts...)
}

// sort.Search(n, f): result r with 0 <= r <= n and (r < n ==> f(r)); the closure is evaluated symbolically at r.
// The monotonicity precondition and the minimality of r are not modelled (not needed by sx: only f(r) is used).
func (ex *Executor) nativeSortSearch(st *State, fr *Frame, fn *ssa.Function, args []Val, ins ssa.Instruction, resVal ssa.Value, aname string, aord int) ([]Val, bool, bool) {
	n := args[0].T
	f := args[1]
	if f.Fn == nil {
		return nil, false, true
	}
	ex.Assumed["sort.Search: native model (0 <= r <= n; r < n ==> f(r); r == n ==> forall j < n: !f(j)); monotonicity of f is not checked"] = true
	r := Fresh("search", SInt)
	// path A: not found: r == n and f(j) is false for every j < n (the closure is evaluated at a bound variable;
	// it must be straight-line code)
	{
		a := ex.fork(st, "nf")
		a.assume(Eq(r, n))
		cfn := f.Fn.Fn
		freshCtr++
		j := Sym(fmt.Sprintf("j!srch%d", freshCtr), SInt)
		qf := ex.newFrame(cfn, nil, fr.depth+1)
		qf.vals[cfn.Params[0]] = Val{T: j, Ty: types.Typ[types.Int]}
		qf.locals[cfn.Params[0].Name()] = localRef{v: qf.vals[cfn.Params[0]]}
		for i, v := range cfn.FreeVars {
			if i < len(f.Fn.Bind) {
				qf.vals[v] = f.Fn.Bind[i]
				qf.locals[v.Name()] = localRef{v: f.Fn.Bind[i], isAddr: true}
			}
		}
		qf.callInstr = ins
		qf.blk = cfn.Blocks[0]
		qf.oldHeap = copyHeap(a.heap)
		qf.oldAlloc = a.alloc
		nfacts := len(a.facts)
		plen := len(a.path)
		a.noObl++
		qf.afterReturn = func(s *State, caller *Frame, res []Val) bool {
			s.noObl--
			if len(s.path) != plen {
				ex.errf("%s: sort.Search predicate is not straight-line code", ex.unitKey)
				return false
			}
			s.facts = s.facts[:nfacts]
			if len(res) == 1 && res[0].T != nil && res[0].T.S == SBool {
				s.assume(Forall([]*Term{j}, Implies(And(Le(Num(0), j), Lt(j, r)), Not(res[0].T))))
			}
			caller.vals[resVal] = Val{T: r, Ty: types.Typ[types.Int]}
			ex.runAnchors(s, caller, "call", aname, aord, "after")
			return true
		}
		a.frames = append(a.frames, qf)
		ex.work = append(ex.work, a)
	}
	// path B: found: evaluate f(r)
	st.path = append(st.path, "fd")
	st.assume(And(Le(Num(0), r), Lt(r, n)))
	cfn := f.Fn.Fn
	nf := ex.newFrame(cfn, nil, fr.depth+1)
	nf.vals[cfn.Params[0]] = Val{T: r, Ty: types.Typ[types.Int]}
	nf.locals[cfn.Params[0].Name()] = localRef{v: nf.vals[cfn.Params[0]]}
	for i, v := range cfn.FreeVars {
		if i < len(f.Fn.Bind) {
			nf.vals[v] = f.Fn.Bind[i]
			nf.locals[v.Name()] = localRef{v: f.Fn.Bind[i], isAddr: true}
		}
	}
	nf.callInstr = ins
	nf.blk = cfn.Blocks[0]
	nf.oldHeap = copyHeap(st.heap)
	nf.oldAlloc = st.alloc
	nf.afterReturn = func(s *State, caller *Frame, res []Val) bool {
		if len(res) == 1 && res[0].T != nil && res[0].T.S == SBool {
			s.assume(res[0].T)
		}
		caller.vals[resVal] = Val{T: r, Ty: types.Typ[types.Int]}
		ex.runAnchors(s, caller, "call", aname, aord, "after")
		return true
	}
	st.frames = append(st.frames, nf)
	return nil, true, true
}

// ---------------------------------------------------------------------------------------------
// static write sets

func (ex *Executor) writtenIn(fn *ssa.Function) map[string]bool {
	if w, ok := ex.writtenMemo[fn]; ok {
		return w
	}
	w := map[string]bool{}
	ex.writtenMemo[fn] = w // recursion guard
	all := map[*ssa.BasicBlock]bool{}
	for _, b := range fn.Blocks {
		all[b] = true
	}
	for k := range ex.writtenInBlocks(fn, all) {
		w[k] = true
	}
	return w
}

func (ex *Executor) writtenInBlocks(fn *ssa.Function, blocks map[*ssa.BasicBlock]bool) map[string]bool {
	return ex.writtenInBlocksP(fn, blocks, nil)
}

// writtenInBlocksP: with precise != nil, stores straight into a captured variable or an address-taken local
// of fn itself (scalar cells) are collected there instead of havocking the whole cell map.
func (ex *Executor) writtenInBlocksP(fn *ssa.Function, blocks map[*ssa.BasicBlock]bool, precise *[]ssa.Value) map[string]bool {
	w := map[string]bool{}
	for _, b := range fn.Blocks {
		if !blocks[b] {
			continue
		}
		for _, ins := range b.Instrs {
			switch x := ins.(type) {
			case *ssa.Store:
				// writes into objects allocated inside these blocks cannot change pre-existing heap locations
				if freshIn(x.Addr, blocks) {
					continue
				}
				switch a := x.Addr.(type) {
				case *ssa.FieldAddr:
					owner := a.X.Type().Underlying().(*types.Pointer).Elem()
					f := structOf(owner).Field(a.Field)
					if isStruct(f.Type()) {
						w["*"] = true
					} else {
						w[fieldMapName(owner, f.Name())] = true
					}
				case *ssa.IndexAddr:
					w[elemNameT(x.Val.Type())] = true
				case *ssa.Global:
				default:
					el := x.Addr.Type().Underlying().(*types.Pointer).Elem()
					if isStruct(el) {
						w["*"] = true
					} else {
						isCell := false
						switch x.Addr.(type) {
						case *ssa.FreeVar, *ssa.Alloc:
							isCell = true
						}
						if _, isArr := el.Underlying().(*types.Array); precise != nil && isCell && !isArr && !isBigIntPtr(x.Addr.Type()) {
							*precise = append(*precise, x.Addr)
						} else {
							w[cellName(sortOf(el))] = true
						}
					}
				}
			case *ssa.MapUpdate:
				w["M.dom"] = true
				w["M.val."+string(sortOf(x.Value.Type()))] = true
			case *ssa.Call:
				ex.callWrites(&x.Call, w)
			case *ssa.Defer:
				ex.callWrites(&x.Call, w)
			}
		}
	}
	return w
}

func (ex *Executor) callWrites(cc *ssa.CallCommon, w map[string]bool) {
	if b, ok := cc.Value.(*ssa.Builtin); ok {
		switch b.Name() {
		case "append", "copy":
			w["E.*"] = true
		case "delete":
			w["M.dom"] = true
		}
		return
	}
	if cc.IsInvoke() {
		if spec := ex.S.Funcs[ifaceMethodKey(cc)]; spec != nil && len(spec.Modifies) > 0 {
			w["*"] = true
		}
		return
	}
	sc := cc.StaticCallee()
	if sc == nil {
		if mc, ok := cc.Value.(*ssa.MakeClosure); ok {
			sc = mc.Fn.(*ssa.Function)
		} else {
			if spec := ex.funcTypeSpec(cc.Value.Type()); spec != nil && spec.HasMod && len(spec.Modifies) == 0 {
				// a function value of a named function type whose (assumed, listed) contract says it modifies nothing
				return
			}
			// unknown function value: it may write through the pointers it is given (one level, as havocPointees)
			pointeeWrites(cc, w)
			return
		}
	}
	if funcKey(sc) == "" || len(sc.Blocks) == 0 {
		// external function: same rule
		if !isBigMethod(sc) {
			pointeeWrites(cc, w)
		}
	}
	key := funcKey(sc)
	var spec *FuncSpec
	if key != "" {
		spec = ex.S.Funcs[key]
	} else {
		spec = ex.S.Funcs[calleeDisplay(sc)]
	}
	if spec != nil && spec.HasMod {
		if len(spec.Modifies) > 0 {
			for _, m := range spec.Modifies {
				if m.Kind == "call" && m.Name == "big" {
					w["bigval"] = true
				} else if n := modFieldMap(sc, m); n != "" {
					w[n] = true
				} else {
					w["*"] = true
				}
			}
		}
		return
	}
	if key != "" && len(sc.Blocks) > 0 {
		for k := range ex.writtenIn(sc) {
			w[k] = true
		}
	}
}

func isBigMethod(fn *ssa.Function) bool {
	return fn.Pkg != nil && fn.Pkg.Pkg.Path() == "math/big"
}

// pointeeWrites: the heap maps an uncontracted callee may write through its pointer arguments (one level)
func pointeeWrites(cc *ssa.CallCommon, w map[string]bool) {
	for _, a := range cc.Args {
		t := a.Type()
		if mi, ok := a.(*ssa.MakeInterface); ok {
			t = mi.X.Type()
		}
		pt, ok := t.Underlying().(*types.Pointer)
		if !ok {
			continue
		}
		el := pt.Elem()
		if n, ok := el.(*types.Named); ok && n.Obj().Pkg() != nil && !inRepo(n.Obj().Pkg()) {
			continue
		}
		if st := structOf(el); st != nil && !isBigIntPtr(t) {
			var add func(owner types.Type)
			add = func(owner types.Type) {
				s := structOf(owner)
				for i := 0; i < s.NumFields(); i++ {
					f := s.Field(i)
					if isStruct(f.Type()) && !isBigIntPtr(types.NewPointer(f.Type())) {
						add(f.Type())
					} else {
						w[fieldMapName(owner, f.Name())] = true
					}
				}
			}
			add(el)
			continue
		}
		if _, isArr := el.Underlying().(*types.Array); !isArr {
			w[cellName(sortOf(el))] = true
		}
	}
}

// modFieldMap: heap map written by a modifies location of the form param.field (direct, non-struct field)
func modFieldMap(sc *ssa.Function, m *SExpr) string {
	if m.Kind != "sel" || len(m.Args) != 1 || m.Args[0].Kind != "ident" {
		return ""
	}
	for _, p := range sc.Params {
		if p.Name() != m.Args[0].Name {
			continue
		}
		pt, ok := p.Type().Underlying().(*types.Pointer)
		if !ok {
			return ""
		}
		st := structOf(pt.Elem())
		if st == nil {
			return ""
		}
		idx, emb := findField(st, m.Name)
		if idx < 0 || emb != nil || isStruct(st.Field(idx).Type()) {
			return ""
		}
		return fieldMapName(pt.Elem(), st.Field(idx).Name())
	}
	return ""
}

func (ex *Executor) havocGlobalsWritten(st *State, fn *ssa.Function, blocks map[*ssa.BasicBlock]bool) {
	for _, b := range fn.Blocks {
		if !blocks[b] {
			continue
		}
		for _, ins := range b.Instrs {
			if s, ok := ins.(*ssa.Store); ok {
				if g, ok := s.Addr.(*ssa.Global); ok {
					st.globals[g] = ex.freshOfType(st, "g."+g.Name(), g.Type().(*types.Pointer).Elem())
				}
			}
		}
	}
}

// freshIn: the address is (a field / element of) an object allocated by an instruction inside blocks
func freshIn(a ssa.Value, blocks map[*ssa.BasicBlock]bool) bool {
	for i := 0; i < 8; i++ {
		switch x := a.(type) {
		case *ssa.Alloc:
			return blocks[x.Block()]
		case *ssa.FieldAddr:
			a = x.X
		case *ssa.IndexAddr:
			if _, ok := x.X.Type().Underlying().(*types.Pointer); ok {
				a = x.X
			} else {
				return false
			}
		default:
			return false
		}
	}
	return false
}

// calleeContractErr: a callee's contract cannot be evaluated at a call site. If the reason is a name the callee no
// longer has (renamed parameter or local), the callee's contract lost its anchor and so did everything this unit would
// have learnt from it: this unit is undecided as well, not violated.
func (ex *Executor) calleeContractErr(spec *FuncSpec, fn *ssa.Function, kind, text string, err error) {
	if nm := unknownIdent(err.Error()); nm != "" && fn != nil && !hasSourceName(fn, nm) {
		ex.anchorLost = true
		ex.errf("anchor-missing %s: %s of %s %q: %v (the callee no longer has that name)", ex.unitKey, kind, spec.Key, text, err)
		return
	}
	ex.errf("%s: %s of %s %q: %v", ex.unitKey, kind, spec.Key, text, err)
}
