package main

// SMT terms as small trees with constant folding and read-over-write simplification.
// Sorts used: Int, Bool, (Array Int Int), (Array Int Bool), (Array Int (Array Int Int)),
// (Array Int (Array Int Bool)). Every Go value that is not a bool is an Int (references,
// strings, interfaces, slices, struct values are identified by Int ids).

import (
	"fmt"
	"math/big"
	"sort"
	"strings"
)

type Sort string

const (
	SInt   Sort = "Int"
	SBool  Sort = "Bool"
	SAII   Sort = "(Array Int Int)"
	SAIB   Sort = "(Array Int Bool)"
	SAAII  Sort = "(Array Int (Array Int Int))"
	SAAIB  Sort = "(Array Int (Array Int Bool))"
	SNone  Sort = ""
	opNum       = "num"
	opSym       = "sym"
	opTrue      = "true"
	opFalse     = "false"
)

func arrayOf(s Sort) Sort {
	switch s {
	case SInt:
		return SAII
	case SBool:
		return SAIB
	case SAII:
		return SAAII
	case SAIB:
		return SAAIB
	}
	panic("arrayOf " + string(s))
}

func elemOf(s Sort) Sort {
	switch s {
	case SAII:
		return SInt
	case SAIB:
		return SBool
	case SAAII:
		return SAII
	case SAAIB:
		return SAIB
	}
	panic("elemOf " + string(s))
}

type Term struct {
	Op   string // num, sym, true, false, app:<fn>, or a builtin (+ - * div mod = < <= and or not => ite select store distinct)
	Name string // for sym / app
	Num  *big.Int
	Args []*Term
	S    Sort
	// quantifier
	Bound []*Term
	key   string
}

var tTrue = &Term{Op: opTrue, S: SBool}
var tFalse = &Term{Op: opFalse, S: SBool}

func Num(i int64) *Term         { return &Term{Op: opNum, Num: big.NewInt(i), S: SInt} }
func NumB(b *big.Int) *Term     { return &Term{Op: opNum, Num: new(big.Int).Set(b), S: SInt} }
func Sym(n string, s Sort) *Term { declareSym(n, s); return &Term{Op: opSym, Name: n, S: s} }
func Bool(b bool) *Term {
	if b {
		return tTrue
	}
	return tFalse
}

// ---- global symbol table (declarations for the SMT files) ----

type fnSig struct {
	args []Sort
	ret  Sort
}

var symTab = map[string]Sort{}
var fnTab = map[string]fnSig{}

func declareSym(n string, s Sort) {
	if o, ok := symTab[n]; ok && o != s {
		panic(fmt.Sprintf("symbol %s redeclared %s vs %s", n, o, s))
	}
	symTab[n] = s
}

var freshCtr = 0

func Fresh(prefix string, s Sort) *Term {
	freshCtr++
	return Sym(fmt.Sprintf("%s!%d", sanitize(prefix), freshCtr), s)
}

func sanitize(s string) string {
	var b strings.Builder
	for _, r := range s {
		switch {
		case r >= 'a' && r <= 'z', r >= 'A' && r <= 'Z', r >= '0' && r <= '9', r == '_', r == '.', r == '$', r == '!':
			b.WriteRune(r)
		default:
			b.WriteRune('_')
		}
	}
	return b.String()
}

func App(fn string, ret Sort, args ...*Term) *Term {
	fn = sanitize(fn)
	sig := fnSig{ret: ret}
	for _, a := range args {
		sig.args = append(sig.args, a.S)
	}
	if o, ok := fnTab[fn]; ok {
		if o.ret != ret || len(o.args) != len(sig.args) {
			panic(fmt.Sprintf("function %s redeclared", fn))
		}
		for i := range o.args {
			if o.args[i] != sig.args[i] {
				panic(fmt.Sprintf("function %s redeclared (arg %d: %s vs %s)", fn, i, o.args[i], sig.args[i]))
			}
		}
	} else {
		fnTab[fn] = sig
	}
	return &Term{Op: "app", Name: fn, Args: args, S: ret}
}

func (t *Term) IsNum() bool  { return t.Op == opNum }
func (t *Term) IsTrue() bool { return t.Op == opTrue }
func (t *Term) IsFalse() bool {
	return t.Op == opFalse
}

func (t *Term) Key() string {
	if t.key == "" {
		t.key = t.String()
	}
	return t.key
}

func (t *Term) String() string {
	var b strings.Builder
	t.write(&b)
	return b.String()
}

func smtSym(n string) string {
	for _, r := range n {
		if !(r >= 'a' && r <= 'z' || r >= 'A' && r <= 'Z' || r >= '0' && r <= '9' || r == '_' || r == '.' || r == '$' || r == '!') {
			return "|" + n + "|"
		}
	}
	return n
}

func (t *Term) write(b *strings.Builder) {
	switch t.Op {
	case opNum:
		if t.Num.Sign() < 0 {
			b.WriteString("(- ")
			b.WriteString(new(big.Int).Neg(t.Num).String())
			b.WriteString(")")
		} else {
			b.WriteString(t.Num.String())
		}
	case opSym:
		b.WriteString(smtSym(t.Name))
	case opTrue, opFalse:
		b.WriteString(t.Op)
	case "forall", "exists":
		b.WriteString("(" + t.Op + " (")
		for _, v := range t.Bound {
			b.WriteString("(" + smtSym(v.Name) + " " + string(v.S) + ")")
		}
		b.WriteString(") ")
		t.Args[0].write(b)
		b.WriteString(")")
	case "constarr":
		b.WriteString("((as const " + string(t.S) + ") ")
		t.Args[0].write(b)
		b.WriteString(")")
	case "app":
		if len(t.Args) == 0 {
			b.WriteString(smtSym(t.Name))
			return
		}
		b.WriteString("(" + smtSym(t.Name))
		for _, a := range t.Args {
			b.WriteString(" ")
			a.write(b)
		}
		b.WriteString(")")
	default:
		b.WriteString("(" + t.Op)
		for _, a := range t.Args {
			b.WriteString(" ")
			a.write(b)
		}
		b.WriteString(")")
	}
}

// ---- constructors with simplification ----

func Eq(a, b *Term) *Term {
	if a.S != b.S {
		panic(fmt.Sprintf("Eq sort mismatch %s:%s vs %s:%s", a, a.S, b, b.S))
	}
	if a.IsNum() && b.IsNum() {
		return Bool(a.Num.Cmp(b.Num) == 0)
	}
	if a.S == SBool {
		if a.IsTrue() {
			return b
		}
		if b.IsTrue() {
			return a
		}
		if a.IsFalse() {
			return Not(b)
		}
		if b.IsFalse() {
			return Not(a)
		}
	}
	if a.Key() == b.Key() {
		return tTrue
	}
	if knownDistinct(a, b) {
		return tFalse
	}
	return &Term{Op: "=", Args: []*Term{a, b}, S: SBool}
}

func Neq(a, b *Term) *Term { return Not(Eq(a, b)) }

// distinctness known syntactically: allocation constants (alloc!k), string literal ids, function ids,
// type tags — all are numerals or registered "unique" symbols.
var uniqueSyms = map[string]bool{}

func UniqueSym(n string) *Term {
	n = sanitize(n)
	uniqueSyms[n] = true
	return Sym(n, SInt)
}

func isUnique(t *Term) bool {
	return t.Op == opSym && uniqueSyms[t.Name]
}

func knownDistinct(a, b *Term) bool {
	if isUnique(a) && isUnique(b) && a.Name != b.Name {
		return true
	}
	// unique symbols are never 0 (nil)
	if isUnique(a) && b.IsNum() && b.Num.Sign() == 0 {
		return true
	}
	if isUnique(b) && a.IsNum() && a.Num.Sign() == 0 {
		return true
	}
	return false
}

func Not(a *Term) *Term {
	switch a.Op {
	case opTrue:
		return tFalse
	case opFalse:
		return tTrue
	case "not":
		return a.Args[0]
	}
	return &Term{Op: "not", Args: []*Term{a}, S: SBool}
}

func And(xs ...*Term) *Term {
	var out []*Term
	for _, x := range xs {
		if x.S != SBool {
			panic("And of non-bool " + x.String())
		}
		if x.IsFalse() {
			return tFalse
		}
		if x.IsTrue() {
			continue
		}
		if x.Op == "and" {
			out = append(out, x.Args...)
		} else {
			out = append(out, x)
		}
	}
	if len(out) == 0 {
		return tTrue
	}
	if len(out) == 1 {
		return out[0]
	}
	return &Term{Op: "and", Args: out, S: SBool}
}

func Or(xs ...*Term) *Term {
	var out []*Term
	for _, x := range xs {
		if x.S != SBool {
			panic("Or of non-bool " + x.String())
		}
		if x.IsTrue() {
			return tTrue
		}
		if x.IsFalse() {
			continue
		}
		if x.Op == "or" {
			out = append(out, x.Args...)
		} else {
			out = append(out, x)
		}
	}
	if len(out) == 0 {
		return tFalse
	}
	if len(out) == 1 {
		return out[0]
	}
	return &Term{Op: "or", Args: out, S: SBool}
}

func Implies(a, b *Term) *Term {
	if a.IsTrue() {
		return b
	}
	if a.IsFalse() || b.IsTrue() {
		return tTrue
	}
	if b.IsFalse() {
		return Not(a)
	}
	return &Term{Op: "=>", Args: []*Term{a, b}, S: SBool}
}

func Ite(c, a, b *Term) *Term {
	if c.IsTrue() {
		return a
	}
	if c.IsFalse() {
		return b
	}
	if a.Key() == b.Key() {
		return a
	}
	if a.S == SBool {
		if a.IsTrue() && b.IsFalse() {
			return c
		}
		if a.IsFalse() && b.IsTrue() {
			return Not(c)
		}
	}
	return &Term{Op: "ite", Args: []*Term{c, a, b}, S: a.S}
}

func arith(op string, a, b *Term) *Term {
	if a.S != SInt || b.S != SInt {
		panic(fmt.Sprintf("arith %s on %s:%s %s:%s", op, a, a.S, b, b.S))
	}
	if a.IsNum() && b.IsNum() {
		r := new(big.Int)
		switch op {
		case "+":
			return NumB(r.Add(a.Num, b.Num))
		case "-":
			return NumB(r.Sub(a.Num, b.Num))
		case "*":
			return NumB(r.Mul(a.Num, b.Num))
		case "div": // SMT-LIB euclidean
			if b.Num.Sign() != 0 {
				m := new(big.Int)
				r.DivMod(a.Num, b.Num, m)
				return NumB(r)
			}
		case "mod":
			if b.Num.Sign() != 0 {
				return NumB(r.Mod(a.Num, new(big.Int).Abs(b.Num)))
			}
		}
	}
	switch op {
	case "+":
		if a.IsNum() && a.Num.Sign() == 0 {
			return b
		}
		if b.IsNum() && b.Num.Sign() == 0 {
			return a
		}
		// (x + c1) + c2
		if b.IsNum() && a.Op == "+" && len(a.Args) == 2 && a.Args[1].IsNum() {
			return arith("+", a.Args[0], NumB(new(big.Int).Add(a.Args[1].Num, b.Num)))
		}
		if b.IsNum() && a.Op == "-" && len(a.Args) == 2 && a.Args[1].IsNum() {
			return arith("+", a.Args[0], NumB(new(big.Int).Sub(b.Num, a.Args[1].Num)))
		}
	case "-":
		if b.IsNum() && b.Num.Sign() == 0 {
			return a
		}
		if a.Key() == b.Key() {
			return Num(0)
		}
		if b.IsNum() {
			return arith("+", a, NumB(new(big.Int).Neg(b.Num)))
		}
	case "*":
		if a.IsNum() && a.Num.Cmp(big.NewInt(1)) == 0 {
			return b
		}
		if b.IsNum() && b.Num.Cmp(big.NewInt(1)) == 0 {
			return a
		}
		if (a.IsNum() && a.Num.Sign() == 0) || (b.IsNum() && b.Num.Sign() == 0) {
			return Num(0)
		}
		if !a.IsNum() && !b.IsNum() {
			// nonlinear: uninterpreted product (commutative normal form)
			x, y := a, b
			if x.Key() > y.Key() {
				x, y = y, x
			}
			return App("nlmul", SInt, x, y)
		}
	}
	return &Term{Op: op, Args: []*Term{a, b}, S: SInt}
}

func Add(a, b *Term) *Term { return arith("+", a, b) }
func Sub(a, b *Term) *Term { return arith("-", a, b) }
func Mul(a, b *Term) *Term { return arith("*", a, b) }
func Div(a, b *Term) *Term { return arith("div", a, b) }
func Mod(a, b *Term) *Term { return arith("mod", a, b) }

func cmp(op string, a, b *Term) *Term {
	if a.S != SInt || b.S != SInt {
		panic(fmt.Sprintf("cmp %s on %s:%s %s:%s", op, a, a.S, b, b.S))
	}
	if a.IsNum() && b.IsNum() {
		c := a.Num.Cmp(b.Num)
		switch op {
		case "<":
			return Bool(c < 0)
		case "<=":
			return Bool(c <= 0)
		case ">":
			return Bool(c > 0)
		case ">=":
			return Bool(c >= 0)
		}
	}
	if a.Key() == b.Key() {
		return Bool(op == "<=" || op == ">=")
	}
	return &Term{Op: op, Args: []*Term{a, b}, S: SBool}
}

func Lt(a, b *Term) *Term { return cmp("<", a, b) }
func Le(a, b *Term) *Term { return cmp("<=", a, b) }
func Gt(a, b *Term) *Term { return cmp(">", a, b) }
func Ge(a, b *Term) *Term { return cmp(">=", a, b) }

// ConstArr: the array that holds v at every index
func ConstArr(v *Term) *Term {
	return &Term{Op: "constarr", Args: []*Term{v}, S: arrayOf(v.S)}
}

func Select(arr, idx *Term) *Term {
	// read over write
	for arr.Op == "store" {
		w := arr.Args[1]
		if w.Key() == idx.Key() {
			return arr.Args[2]
		}
		if (w.IsNum() && idx.IsNum()) || knownDistinct(w, idx) {
			arr = arr.Args[0]
			continue
		}
		break
	}
	if arr.Op == "constarr" {
		return arr.Args[0]
	}
	return &Term{Op: "select", Args: []*Term{arr, idx}, S: elemOf(arr.S)}
}

func Store(arr, idx, v *Term) *Term {
	if elemOf(arr.S) != v.S {
		panic(fmt.Sprintf("Store sort mismatch: %s into %s", v.S, arr.S))
	}
	// overwrite of the same syntactic index
	if arr.Op == "store" && arr.Args[1].Key() == idx.Key() {
		arr = arr.Args[0]
	}
	return &Term{Op: "store", Args: []*Term{arr, idx, v}, S: arr.S}
}

func Forall(bound []*Term, body *Term) *Term {
	if body.IsTrue() {
		return tTrue
	}
	return &Term{Op: "forall", Bound: bound, Args: []*Term{body}, S: SBool}
}
func Exists(bound []*Term, body *Term) *Term {
	if body.IsFalse() {
		return tFalse
	}
	return &Term{Op: "exists", Bound: bound, Args: []*Term{body}, S: SBool}
}

func Distinct(xs ...*Term) *Term {
	if len(xs) < 2 {
		return tTrue
	}
	return &Term{Op: "distinct", Args: xs, S: SBool}
}

// substitute symbols (by name) with terms
func (t *Term) Subst(m map[string]*Term) *Term {
	switch t.Op {
	case opNum, opTrue, opFalse:
		return t
	case opSym:
		if r, ok := m[t.Name]; ok {
			return r
		}
		return t
	}
	args := make([]*Term, len(t.Args))
	changed := false
	for i, a := range t.Args {
		args[i] = a.Subst(m)
		if args[i] != a {
			changed = true
		}
	}
	if !changed {
		return t
	}
	return rebuild(t, args)
}

func rebuild(t *Term, args []*Term) *Term {
	switch t.Op {
	case "=":
		return Eq(args[0], args[1])
	case "not":
		return Not(args[0])
	case "and":
		return And(args...)
	case "or":
		return Or(args...)
	case "=>":
		return Implies(args[0], args[1])
	case "ite":
		return Ite(args[0], args[1], args[2])
	case "+", "-", "*", "div", "mod":
		if len(args) == 2 {
			return arith(t.Op, args[0], args[1])
		}
	case "<", "<=", ">", ">=":
		return cmp(t.Op, args[0], args[1])
	case "select":
		return Select(args[0], args[1])
	case "store":
		return Store(args[0], args[1], args[2])
	}
	return &Term{Op: t.Op, Name: t.Name, Args: args, S: t.S, Bound: t.Bound}
}

// collect free symbols and applied functions
func (t *Term) collect(syms map[string]Sort, fns map[string]bool, bound map[string]bool) {
	switch t.Op {
	case opSym:
		if !bound[t.Name] {
			syms[t.Name] = t.S
		}
	case "app":
		fns[t.Name] = true
	case "forall", "exists":
		nb := map[string]bool{}
		for k := range bound {
			nb[k] = true
		}
		for _, v := range t.Bound {
			nb[v.Name] = true
		}
		t.Args[0].collect(syms, fns, nb)
		return
	}
	for _, a := range t.Args {
		a.collect(syms, fns, bound)
	}
}

// Query renders an SMT-LIB script: facts ∧ ¬goal (goal == nil: satisfiability of the facts = cover query).
func Query(facts []*Term, goal *Term, models bool) string {
	facts = preInstantiate(facts, goal)
	syms := map[string]Sort{}
	fns := map[string]bool{}
	for _, f := range facts {
		f.collect(syms, fns, map[string]bool{})
	}
	if goal != nil {
		goal.collect(syms, fns, map[string]bool{})
	}
	var b strings.Builder
	if models {
		b.WriteString("(set-option :produce-models true)\n")
	}
	b.WriteString("(set-logic ALL)\n")
	var names []string
	for n := range syms {
		names = append(names, n)
	}
	sort.Strings(names)
	for _, n := range names {
		fmt.Fprintf(&b, "(declare-fun %s () %s)\n", smtSym(n), syms[n])
	}
	names = names[:0]
	for n := range fns {
		names = append(names, n)
	}
	sort.Strings(names)
	for _, n := range names {
		sig := fnTab[n]
		var as []string
		for _, a := range sig.args {
			as = append(as, string(a))
		}
		fmt.Fprintf(&b, "(declare-fun %s (%s) %s)\n", smtSym(n), strings.Join(as, " "), sig.ret)
	}
	// unique symbols are pairwise distinct and non-zero
	var us []string
	for n := range syms {
		if uniqueSyms[n] {
			us = append(us, smtSym(n))
		}
	}
	sort.Strings(us)
	if len(us) > 0 {
		fmt.Fprintf(&b, "(assert (distinct 0 %s))\n", strings.Join(us, " "))
	}
	// the nil slice has length and capacity 0
	if fns["slen"] {
		b.WriteString("(assert (= (slen 0) 0))\n")
	}
	if fns["scap"] {
		b.WriteString("(assert (= (scap 0) 0))\n")
	}
	for _, f := range facts {
		if f.IsTrue() {
			continue
		}
		b.WriteString("(assert ")
		f.write(&b)
		b.WriteString(")\n")
	}
	if goal != nil {
		b.WriteString("(assert (not ")
		goal.write(&b)
		b.WriteString("))\n")
	}
	b.WriteString("(check-sat)\n")
	if models {
		b.WriteString("(get-model)\n")
	}
	return b.String()
}

// ---------------------------------------------------------------------------------------------
// Ground pre-instantiation of bounded quantifiers over slice indices. E-matching loses patterns of the shape
// (select a (+ off k)) once the solver normalises the arithmetic, so for every universally quantified fact with a
// single bound variable k that occurs as (+ A k), the instances k := t for all ground index terms (+ A t) of the
// query are added as facts. Sound: instances of a fact are consequences of it.
func preInstantiate(facts []*Term, goal *Term) []*Term {
	type pat struct{ q, a *Term }
	var pats []pat
	var findPats func(q *Term, t *Term, k string)
	findPats = func(q, t *Term, k string) {
		if t.Op == "+" && len(t.Args) == 2 {
			if t.Args[1].Op == opSym && t.Args[1].Name == k && !mentionsSym(t.Args[0], k) {
				pats = append(pats, pat{q, t.Args[0]})
			} else if t.Args[0].Op == opSym && t.Args[0].Name == k && !mentionsSym(t.Args[1], k) {
				pats = append(pats, pat{q, t.Args[1]})
			}
		}
		for _, a := range t.Args {
			findPats(q, a, k)
		}
	}
	var quants []*Term
	var collectQ func(t *Term, positive bool)
	collectQ = func(t *Term, positive bool) {
		switch t.Op {
		case "forall":
			if positive && len(t.Bound) == 1 {
				quants = append(quants, t)
			}
		case "and":
			for _, a := range t.Args {
				collectQ(a, positive)
			}
		}
	}
	for _, f := range facts {
		collectQ(f, true)
	}
	if len(quants) == 0 {
		return facts
	}
	for _, q := range quants {
		findPats(q, q.Args[0], q.Bound[0].Name)
	}
	if len(pats) == 0 {
		return facts
	}
	// ground candidates: (+ A t) anywhere outside the quantifier bodies
	type cand struct{ a, t *Term }
	var cands []cand
	var walk func(t *Term)
	walk = func(t *Term) {
		if t.Op == "forall" || t.Op == "exists" {
			return
		}
		if t.Op == "+" && len(t.Args) == 2 {
			cands = append(cands, cand{t.Args[0], t.Args[1]}, cand{t.Args[1], t.Args[0]})
		}
		for _, a := range t.Args {
			walk(a)
		}
	}
	for _, f := range facts {
		walk(f)
	}
	if goal != nil {
		walk(goal)
	}
	out := append([]*Term(nil), facts...)
	seen := map[string]bool{}
	n := 0
	for _, p := range pats {
		ak := p.a.Key()
		for _, c := range cands {
			if c.a.Key() != ak || n > 200 {
				continue
			}
			key := p.q.Key() + "|" + c.t.Key()
			if seen[key] {
				continue
			}
			seen[key] = true
			n++
			out = append(out, p.q.Args[0].Subst(map[string]*Term{p.q.Bound[0].Name: c.t}))
		}
	}
	return out
}

func mentionsSym(t *Term, name string) bool {
	if t.Op == opSym && t.Name == name {
		return true
	}
	for _, a := range t.Args {
		if mentionsSym(a, name) {
			return true
		}
	}
	return false
}
