package main

// Bounded stand-in for the clause of C18 that is string reasoning outside the contracts' reach: "every canonical
// rendering of a value parses back to that value". It is an enumeration on the REAL parsers (an in-package test
// injected with go test -overlay), labelled bounded in the evidence and never counted as proved. Thorough tier only.
//
// Bounds: port bounds from a 19-element sample of 0..65535 incl. all decimal-length boundaries (all ordered pairs, as
// "a", "a-a", "a-b"; lists of two ranges from a 6-element sample, order kept); rates N in {0,1,2,10,1000,2^31-1} with
// 11 window spellings and the window-less form; all 512 TCP flag sets in table order and all 9! is NOT enumerated -
// each single flag in upper and lower case instead; all 8 IP flag sets in every order of up to 3 names; payloads: every
// single byte and all 65536 two-byte strings rendered with strconv.Quote; exclusion and ports files: comment, blank and
// padded lines around two entries.

import (
	"fmt"
	"strings"
)

const boundedC18Test = `package command

import (
	"fmt"
	"io"
	"net"
	"strconv"
	"strings"
	"testing"
	"time"

	"github.com/google/gopacket/layers"
)

func TestSxvBoundedC18(t *testing.T) {
	cases := 0
	fail := func(format string, a ...interface{}) {
		t.Errorf("SXV-BOUNDED-FAIL "+format, a...)
	}
	sample := []int{0, 1, 2, 9, 10, 11, 99, 100, 101, 255, 256, 999, 1000, 9999, 10000, 32768, 65534, 65535, 443}
	for _, a := range sample {
		for _, b := range sample {
			if a > b {
				continue
			}
			texts := []string{fmt.Sprintf("%d-%d", a, b)}
			if a == b {
				texts = append(texts, fmt.Sprintf("%d", a))
			}
			for _, s := range texts {
				cases++
				r, err := parsePortRange(s)
				if err != nil || r == nil || int(r.StartPort) != a || int(r.EndPort) != b {
					fail("parsePortRange(%q) = %v, %v; want %d-%d", s, r, err, a, b)
				}
			}
		}
	}
	small := [][2]int{{1, 1}, {22, 22}, {80, 443}, {0, 65535}, {1000, 2000}, {65535, 65535}}
	for _, x := range small {
		for _, y := range small {
			cases++
			s := fmt.Sprintf("%d-%d,%d-%d", x[0], x[1], y[0], y[1])
			rs, err := parsePortRanges(s)
			if err != nil || len(rs) != 2 || int(rs[0].StartPort) != x[0] || int(rs[0].EndPort) != x[1] || int(rs[1].StartPort) != y[0] || int(rs[1].EndPort) != y[1] {
				fail("parsePortRanges(%q) = %v, %v", s, rs, err)
			}
		}
	}
	// rate limits
	wins := map[string]time.Duration{"s": time.Second, "ms": time.Millisecond, "m": time.Minute, "h": time.Hour, "us": time.Microsecond,
		"1s": time.Second, "7s": 7 * time.Second, "500ms": 500 * time.Millisecond, "1m30s": 90 * time.Second, "1.5s": 1500 * time.Millisecond, "2h": 2 * time.Hour}
	for _, n := range []int{0, 1, 2, 10, 1000, 2147483647} {
		cases++
		c, w, err := parseRateLimit(strconv.Itoa(n))
		if err != nil || c != n || w != time.Second {
			fail("parseRateLimit(%q) = %d, %v, %v; want %d per 1s", strconv.Itoa(n), c, w, err, n)
		}
		for ws, wd := range wins {
			cases++
			s := strconv.Itoa(n) + "/" + ws
			c, w, err := parseRateLimit(s)
			if err != nil || c != n || w != wd {
				fail("parseRateLimit(%q) = %d, %v, %v; want %d per %v", s, c, w, err, n, wd)
			}
		}
	}
	// TCP flag lists: every subset, in table order
	names := []string{"syn", "ack", "fin", "rst", "psh", "urg", "ece", "cwr", "ns"}
	for m := 0; m < 512; m++ {
		var sel []string
		for k, nm := range names {
			if m&(1<<k) != 0 {
				sel = append(sel, nm)
			}
		}
		cases++
		got, err := parseTCPFlags(strings.Join(sel, ","))
		if err != nil || strings.Join(got, ",") != strings.Join(sel, ",") {
			fail("parseTCPFlags(%q) = %v, %v", strings.Join(sel, ","), got, err)
		}
	}
	for _, nm := range names {
		cases++
		got, err := parseTCPFlags(strings.ToUpper(nm))
		if err != nil || len(got) != 1 || got[0] != nm {
			fail("parseTCPFlags(%q) = %v, %v", strings.ToUpper(nm), got, err)
		}
	}
	// IP flags: each name sets exactly its own bit
	bits := map[string]uint8{"df": uint8(layers.IPv4DontFragment), "evil": uint8(layers.IPv4EvilBit), "mf": uint8(layers.IPv4MoreFragments)}
	ipn := []string{"df", "evil", "mf"}
	var perms func(cur []string, used int)
	perms = func(cur []string, used int) {
		if len(cur) > 0 {
			var want uint8
			for _, n := range cur {
				want |= bits[n]
			}
			cases++
			got, err := parseIPFlags(strings.Join(cur, ","))
			if err != nil || got != want {
				fail("parseIPFlags(%q) = %d, %v; want %d", strings.Join(cur, ","), got, err, want)
			}
		}
		for k, n := range ipn {
			if used&(1<<k) == 0 {
				perms(append(append([]string(nil), cur...), n), used|1<<k)
			}
		}
	}
	perms(nil, 0)
	// payloads: the canonical rendering of a byte string is strconv.Quote without the quotes
	check := func(b []byte) {
		cases++
		q := strconv.Quote(string(b))
		s := q[1 : len(q)-1]
		got, err := parsePacketPayload(s)
		if err != nil || string(got) != string(b) {
			fail("parsePacketPayload(%q) = %x, %v; want %x", s, got, err, b)
		}
	}
	for x := 0; x < 256; x++ {
		check([]byte{byte(x)})
	}
	for x := 0; x < 256; x++ {
		for y := 0; y < 256; y++ {
			check([]byte{byte(x), byte(y)})
		}
	}
	// exclusion file and ports file: comments, blanks and padding
	open := func(text string) openFileFunc {
		return func() (io.ReadCloser, error) { return io.NopCloser(strings.NewReader(text)), nil }
	}
	cases++
	ex, err := parseExcludeFile(open("# header\n\n 10.0.0.0/8   # private\n192.168.1.7\n"))
	if err != nil {
		fail("parseExcludeFile: %v", err)
	} else {
		for addr, want := range map[string]bool{"10.0.0.0": true, "10.255.255.255": true, "11.0.0.0": false, "9.255.255.255": false, "192.168.1.7": true, "192.168.1.8": false, "192.168.1.6": false} {
			got, err := ex.Contains(net.ParseIP(addr))
			if err != nil || got != want {
				fail("exclusion container Contains(%s) = %v, %v; want %v", addr, got, err, want)
			}
		}
	}
	cases++
	pr, err := parsePortsFile(open("# ports\n22\n\n 80-443  # web\n"))
	if err != nil || len(pr) != 2 || pr[0].StartPort != 22 || pr[0].EndPort != 22 || pr[1].StartPort != 80 || pr[1].EndPort != 443 {
		fail("parsePortsFile = %v, %v", pr, err)
	}
	fmt.Printf("SXV-BOUNDED-CASES %d\n", cases)
}
`

// runBoundedC18 runs the enumeration on the real parsers; the result goes into the evidence and, on failure, into a
// violation whose replay file carries the failing inputs.
func runBoundedC18(repo string) (map[string]interface{}, *Obligation) {
	out, failed := runOverlayTest(repo, "command", boundedC18Test, "TestSxvBoundedC18")
	res := map[string]interface{}{
		"label":  "bounded (not a proof): canonical renderings parse back, enumerated on the real parsers",
		"bounds": "19 sampled port bounds (all ordered pairs, three spellings), 36 two-range lists, 6 rate counts x 12 window spellings, all 512 TCP flag sets in table order + upper-case singles, all orderings of up to 3 IP flags, all 1- and 2-byte payloads via strconv.Quote, one exclusion file and one ports file with comments/blanks/padding",
	}
	for _, l := range strings.Split(out, "\n") {
		if strings.HasPrefix(l, "SXV-BOUNDED-CASES ") {
			res["cases"] = strings.TrimPrefix(l, "SXV-BOUNDED-CASES ")
		}
	}
	ok := !failed && strings.Contains(out, "SXV-BOUNDED-CASES") && strings.Contains(out, "ok  ")
	res["status"] = map[bool]string{true: "passed", false: "failed"}[ok]
	if !strings.Contains(out, "SXV-BOUNDED-CASES") && !failed {
		res["status"] = "not-run"
		res["output"] = truncate(out, 1500)
		return res, nil
	}
	o := &Obligation{Name: "command.parse*#bounded[canonical renderings parse back]", Kind: "bounded", Func: "command.parsePortRange", Props: []string{"C18"},
		Structural: true, StructOK: ok, Text: "bounded enumeration on the real parsers", Path: ""}
	if !ok {
		var fails []string
		for _, l := range strings.Split(out, "\n") {
			if i := strings.Index(l, "SXV-BOUNDED-FAIL "); i >= 0 && len(fails) < 20 {
				fails = append(fails, strings.TrimSpace(l[i+len("SXV-BOUNDED-FAIL "):]))
			}
		}
		o.StructMsg = fmt.Sprintf("bounded enumeration found inputs that do not parse back: %s", strings.Join(fails, " | "))
		if len(fails) == 0 {
			o.StructMsg = "bounded enumeration did not complete: " + truncate(out, 1500)
		}
		o.Text = o.StructMsg
		o.BoundedTest = boundedC18Test
		o.BoundedOut = truncate(out, 6000)
	}
	return res, o
}
