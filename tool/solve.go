package main

import (
	"bytes"
	"context"
	"fmt"
	"os"
	"os/exec"
	"path/filepath"
	"strings"
	"sync"
	"time"
)

type solverDef struct {
	name string
	cmd  func(file string, timeoutS int) []string
}

var solvers = []solverDef{
	{"z3-new", func(f string, t int) []string { return []string{"z3-new", fmt.Sprintf("-T:%d", t), f} }},
	{"z3", func(f string, t int) []string { return []string{"z3", fmt.Sprintf("-T:%d", t), f} }},
	{"cvc5", func(f string, t int) []string {
		return []string{"cvc5", fmt.Sprintf("--tlimit=%d", t*1000), "--produce-models", f}
	}},
}

type solveResult struct {
	solver string
	status string // unsat sat unknown timeout error
	out    string
	ms     int64
}

func runSolver(ctx context.Context, s solverDef, file string, timeoutS int) solveResult {
	args := s.cmd(file, timeoutS)
	c, cancel := context.WithTimeout(ctx, time.Duration(timeoutS+2)*time.Second)
	defer cancel()
	t0 := time.Now()
	cmd := exec.CommandContext(c, args[0], args[1:]...)
	var out bytes.Buffer
	cmd.Stdout = &out
	cmd.Stderr = &out
	_ = cmd.Run()
	ms := time.Since(t0).Milliseconds()
	text := out.String()
	first := strings.TrimSpace(strings.SplitN(text, "\n", 2)[0])
	st := "error"
	switch {
	case first == "unsat":
		st = "unsat"
	case first == "sat":
		st = "sat"
	case first == "unknown":
		st = "unknown"
	case strings.Contains(first, "timeout") || c.Err() != nil:
		st = "timeout"
	}
	return solveResult{s.name, st, text, ms}
}

type SolveConfig struct {
	QuickS   int // first solver timeout
	SlowS    int // portfolio timeout
	Workers  int
	Thorough bool
	KeepDir  string
	BudgetS  int // wall-clock budget for the whole discharge phase (0 = none)
}

// Discharge runs all non-structural obligations through the solver portfolio.
func Discharge(obls []*Obligation, cfg SolveConfig) (solverMs map[string]int64, solverCount map[string]int) {
	dir, err := os.MkdirTemp("", "sxv-smt-")
	if err != nil {
		panic(err)
	}
	defer os.RemoveAll(dir)
	solverMs = map[string]int64{}
	solverCount = map[string]int{}
	var mu sync.Mutex
	sem := make(chan struct{}, cfg.Workers)
	var wg sync.WaitGroup
	start := time.Now()
	for i, o := range obls {
		if cfg.BudgetS > 0 && !o.Structural && time.Since(start) > time.Duration(cfg.BudgetS)*time.Second {
			o.Status = "failed"
			o.Solver = "budget"
			o.Output = "time budget of the check exhausted before this obligation was tried"
			continue
		}
		if o.Structural {
			if o.StructOK {
				o.Status = "discharged"
				o.Solver = "generator"
			} else {
				o.Status = "failed"
				o.Solver = "generator"
				o.Output = o.StructMsg
			}
			continue
		}
		wg.Add(1)
		sem <- struct{}{}
		go func(i int, o *Obligation) {
			defer wg.Done()
			defer func() { <-sem }()
			file := filepath.Join(dir, fmt.Sprintf("o%d.smt2", i))
			script := Query(o.Facts, o.Goal, true)
			os.WriteFile(file, []byte(script), 0o644)
			want := "unsat"
			if o.Cover {
				want = "sat"
			}
			ctx := context.Background()
			var results []solveResult
			r := runSolver(ctx, solvers[0], file, cfg.QuickS)
			results = append(results, r)
			decided := r.status == "sat" || r.status == "unsat"
			if !decided || cfg.Thorough {
				// race the remaining solvers
				ch := make(chan solveResult, len(solvers))
				n := 0
				for _, s := range solvers {
					if s.name == solvers[0].name && decided {
						continue
					}
					n++
					go func(s solverDef) { ch <- runSolver(ctx, s, file, cfg.SlowS) }(s)
				}
				for k := 0; k < n; k++ {
					results = append(results, <-ch)
				}
			}
			mu.Lock()
			defer mu.Unlock()
			var agree []string
			var best *solveResult
			for k := range results {
				rr := &results[k]
				solverMs[rr.solver] += rr.ms
				if rr.status == want {
					agree = append(agree, rr.solver)
					if best == nil {
						best = rr
					}
				}
			}
			// contradiction between solvers is reported, never hidden
			hasSat, hasUnsat := false, false
			for _, rr := range results {
				if rr.status == "sat" {
					hasSat = true
				}
				if rr.status == "unsat" {
					hasUnsat = true
				}
			}
			if hasSat && hasUnsat {
				o.Status = "failed"
				o.Solver = "conflict"
				o.Output = "solvers disagree (sat and unsat)"
				return
			}
			if best != nil {
				o.Status = "discharged"
				o.Solver = strings.Join(agree, "+")
				o.Ms = best.ms
				solverCount[best.solver]++
				if o.Cover {
					o.Model = best.out
				}
				return
			}
			// not discharged
			o.Status = "failed"
			for _, rr := range results {
				if (rr.status == "sat" && !o.Cover) || (rr.status == "unsat" && o.Cover) {
					o.Solver = rr.solver
					o.Output = rr.status
					o.Model = rr.out
					o.Ms = rr.ms
					break
				}
			}
			if o.Solver == "" {
				var ss []string
				for _, rr := range results {
					ss = append(ss, rr.solver+":"+rr.status)
				}
				o.Solver = "none"
				o.Output = strings.Join(ss, " ")
				if o.Cover {
					// a cover query that no solver decides does not show vacuity
					o.Status = "discharged"
					o.Solver = "undecided-cover"
				}
			}
			if cfg.KeepDir != "" {
				os.MkdirAll(cfg.KeepDir, 0o755)
				os.WriteFile(filepath.Join(cfg.KeepDir, sanitize(o.Name)+".smt2"), []byte(script), 0o644)
			}
		}(i, o)
	}
	wg.Wait()
	// second chance for obligations that no solver answered in time (a loaded machine makes 0.1 s queries slow):
	// a timeout is never reported as a violation before one unhurried attempt has been made
	var again []int
	for i, o := range obls {
		if o.Status == "failed" && o.Solver == "none" && !strings.Contains(o.Output, ":unknown") && !strings.Contains(o.Output, ":sat") {
			again = append(again, i)
		}
	}
	if len(again) > 0 && len(again) <= 8 {
		var wg2 sync.WaitGroup
		for _, i := range again {
			wg2.Add(1)
			go func(i int) {
				defer wg2.Done()
				o := obls[i]
				file := filepath.Join(dir, fmt.Sprintf("o%d.smt2", i))
				r := runSolver(context.Background(), solvers[0], file, 3*cfg.SlowS)
				mu.Lock()
				defer mu.Unlock()
				solverMs[r.solver] += r.ms
				if r.status == "unsat" && !o.Cover {
					o.Status, o.Solver, o.Ms, o.Output = "discharged", r.solver+"(retry)", r.ms, ""
					solverCount[r.solver]++
				} else if r.status == "sat" && !o.Cover {
					o.Solver, o.Output, o.Model, o.Ms = r.solver, "sat", r.out, r.ms
				}
			}(i)
		}
		wg2.Wait()
	}
	return
}
