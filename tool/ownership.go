package main

// Channel ownership and cancellation discipline (property C12), discharged structurally on go/ssa of the
// whole repository (no SMT): for every make(chan) site of /repo
//
//	#close-owner   every close of the channel is performed by one goroutine (the creator, or a goroutine the
//	               creator handed the channel down to); a close in the creating function itself is allowed on a
//	               path that cannot reach the spawn any more; a function that only received the channel through
//	               a return value never closes it
//	#close-once    the closing statement cannot execute twice (not in a loop, its goroutine is spawned once per
//	               channel, several close statements of one function are mutually unreachable)
//	#send-live     every send on the channel happens-before the close: sender and closer are the same goroutine
//	               and no send is reachable after a non-deferred close, or the sender goroutine signals
//	               wg.Done() on a WaitGroup the closer Wait()s on before closing
//
// and for the goroutines the scan call joins (wg.Wait in startScanEngine)
//
//	#cancel-guard  every blocking channel operation they can reach synchronously is a select with a ctx.Done()
//	               case, a receive on a channel whose closing goroutine is itself cancel-guarded and closes on
//	               every exit, or a Wait on goroutines that are cancel-guarded.
//
// The value-flow relation used to decide "the same channel" is an over-approximation (type-level for struct
// fields and slice elements, name-based for interface method calls): more aliases can only add close/send sites
// to a channel, i.e. make the obligations harder, never easier.

import (
	"fmt"
	"os"
	"go/token"
	"go/types"
	"sort"
	"strings"

	"golang.org/x/tools/go/ssa"
)

type flowNode interface{}

var debugOwn = os.Getenv("SXV_DEBUG_OWN") != ""

type chanSite struct {
	instr    ssa.Instruction
	fn       *ssa.Function
	deferred bool
	val      ssa.Value
	viaCall  bool // a call that hands the channel to a function that sends (attributed to the caller)
}

type ownAnalysis struct {
	p       *Program
	fns     []*ssa.Function
	edges   map[flowNode][]flowNode
	retEdge map[[2]flowNode]bool // edges that go through a function return
	byName  map[string][]*ssa.Function
	syncCallers map[*ssa.Function][]*ssa.Function
	goTargets   map[*ssa.Function][]ssa.Instruction // spawn sites
	linkSites   map[*ssa.Function][]ssa.Instruction // sites where a closure / function is invoked (call, defer, go)
	makes   []*ssa.MakeChan
	alias   map[*ssa.MakeChan]map[flowNode]bool
	aliasNoRet map[*ssa.MakeChan]map[flowNode]bool
}

func repoFn(fn *ssa.Function) bool {
	if fn == nil || len(fn.Blocks) == 0 {
		return false
	}
	f := fn
	for f.Parent() != nil {
		f = f.Parent()
	}
	return f.Pkg != nil && strings.HasPrefix(f.Pkg.Pkg.Path(), repoModule)
}

func newOwnAnalysis(p *Program) *ownAnalysis {
	a := &ownAnalysis{p: p, edges: map[flowNode][]flowNode{}, retEdge: map[[2]flowNode]bool{}, byName: map[string][]*ssa.Function{},
		syncCallers: map[*ssa.Function][]*ssa.Function{}, goTargets: map[*ssa.Function][]ssa.Instruction{}, linkSites: map[*ssa.Function][]ssa.Instruction{},
		alias: map[*ssa.MakeChan]map[flowNode]bool{}, aliasNoRet: map[*ssa.MakeChan]map[flowNode]bool{}}
	seen := map[*ssa.Function]bool{}
	var add func(fn *ssa.Function)
	add = func(fn *ssa.Function) {
		if seen[fn] || !repoFn(fn) {
			return
		}
		seen[fn] = true
		a.fns = append(a.fns, fn)
		for _, af := range fn.AnonFuncs {
			add(af)
		}
	}
	var keys []string
	for k := range p.Funcs {
		keys = append(keys, k)
	}
	sort.Strings(keys)
	for _, k := range keys {
		add(p.Funcs[k])
	}
	for _, fn := range a.fns {
		if fn.Signature.Recv() != nil {
			a.byName[fn.Name()] = append(a.byName[fn.Name()], fn)
		}
	}
	a.build()
	return a
}

func (a *ownAnalysis) edge(from, to flowNode) {
	if from == nil || to == nil {
		return
	}
	a.edges[from] = append(a.edges[from], to)
}

func typeKey(t types.Type) string { return types.TypeString(t, nil) }

// cellOf: the abstract memory cell an address denotes
func (a *ownAnalysis) cellOf(addr ssa.Value) flowNode {
	switch x := addr.(type) {
	case *ssa.Alloc, *ssa.FreeVar, *ssa.Global:
		return x
	case *ssa.FieldAddr:
		if pt, ok := x.X.Type().Underlying().(*types.Pointer); ok {
			if st, ok := pt.Elem().Underlying().(*types.Struct); ok {
				return "field:" + typeKey(pt.Elem()) + "." + st.Field(x.Field).Name()
			}
		}
	case *ssa.IndexAddr:
		return "elem:" + typeKey(x.Type())
	}
	return "cell:" + typeKey(addr.Type())
}

func (a *ownAnalysis) callees(cc *ssa.CallCommon) []*ssa.Function {
	if cc.IsInvoke() {
		var out []*ssa.Function
		for _, f := range a.byName[cc.Method.Name()] {
			if f.Signature.Params().Len() == cc.Signature().Params().Len() {
				out = append(out, f)
			}
		}
		return out
	}
	if sc := cc.StaticCallee(); sc != nil {
		if repoFn(sc) {
			return []*ssa.Function{sc}
		}
		return nil
	}
	if mc, ok := cc.Value.(*ssa.MakeClosure); ok {
		if f, ok := mc.Fn.(*ssa.Function); ok {
			return []*ssa.Function{f}
		}
	}
	return nil
}

func (a *ownAnalysis) build() {
	for _, fn := range a.fns {
		for _, b := range fn.Blocks {
			for _, ins := range b.Instrs {
				switch x := ins.(type) {
				case *ssa.MakeChan:
					a.makes = append(a.makes, x)
				case *ssa.ChangeType:
					a.edge(x.X, x)
				case *ssa.ChangeInterface:
					a.edge(x.X, x)
				case *ssa.MakeInterface:
					a.edge(x.X, x)
				case *ssa.Convert:
					a.edge(x.X, x)
				case *ssa.Phi:
					for _, e := range x.Edges {
						a.edge(e, x)
					}
				case *ssa.Store:
					a.edge(x.Val, a.cellOf(x.Addr))
				case *ssa.UnOp:
					if x.Op == token.MUL {
						a.edge(a.cellOf(x.X), x)
					}
				case *ssa.Field:
					if st, ok := x.X.Type().Underlying().(*types.Struct); ok {
						a.edge("field:"+typeKey(x.X.Type())+"."+st.Field(x.Field).Name(), x)
					}
				case *ssa.Index:
					a.edge("elem:"+typeKey(types.NewPointer(x.Type())), x)
				case *ssa.Slice:
					a.edge(x.X, x)
				case *ssa.MakeClosure:
					if f, ok := x.Fn.(*ssa.Function); ok {
						for i, bnd := range x.Bindings {
							if i < len(f.FreeVars) {
								a.edge(bnd, f.FreeVars[i])
								a.edge(f.FreeVars[i], bnd)
							}
						}
					}
				case *ssa.Extract:
					if c, ok := x.Tuple.(*ssa.Call); ok {
						for _, g := range a.callees(&c.Call) {
							for _, gb := range g.Blocks {
								for _, gi := range gb.Instrs {
									if r, ok := gi.(*ssa.Return); ok && x.Index < len(r.Results) {
										a.edge(r.Results[x.Index], x)
										a.retEdge[[2]flowNode{r.Results[x.Index], x}] = true
									}
								}
							}
						}
					}
				}
				var cc *ssa.CallCommon
				kind := ""
				switch c := ins.(type) {
				case *ssa.Call:
					cc, kind = &c.Call, "call"
				case *ssa.Defer:
					cc, kind = &c.Call, "defer"
				case *ssa.Go:
					cc, kind = &c.Call, "go"
				}
				if cc == nil {
					continue
				}
				if bi, ok := cc.Value.(*ssa.Builtin); ok {
					if bi.Name() == "append" {
						if v, ok := ins.(ssa.Value); ok {
							for _, ar := range cc.Args {
								a.edge(ar, v)
							}
						}
					}
					continue
				}
				for _, g := range a.callees(cc) {
					a.linkSites[g] = append(a.linkSites[g], ins)
					if kind == "go" {
						a.goTargets[g] = append(a.goTargets[g], ins)
					} else {
						a.syncCallers[g] = append(a.syncCallers[g], fn)
					}
					off := 0
					if cc.IsInvoke() {
						off = 1
						if len(g.Params) > 0 {
							a.edge(cc.Value, g.Params[0])
						}
					}
					for i, ar := range cc.Args {
						if i+off < len(g.Params) {
							a.edge(ar, g.Params[i+off])
						}
					}
					// single result
					if v, ok := ins.(*ssa.Call); ok && g.Signature.Results().Len() == 1 {
						for _, gb := range g.Blocks {
							for _, gi := range gb.Instrs {
								if r, ok := gi.(*ssa.Return); ok && len(r.Results) == 1 {
									a.edge(r.Results[0], v)
									a.retEdge[[2]flowNode{r.Results[0], v}] = true
								}
							}
						}
					}
				}
			}
		}
	}
	for _, m := range a.makes {
		a.alias[m] = a.reach(m, true)
		a.aliasNoRet[m] = a.reach(m, false)
	}
}

func (a *ownAnalysis) reach(src flowNode, throughRet bool) map[flowNode]bool {
	seen := map[flowNode]bool{src: true}
	work := []flowNode{src}
	for len(work) > 0 {
		n := work[len(work)-1]
		work = work[:len(work)-1]
		for _, t := range a.edges[n] {
			if !throughRet && a.retEdge[[2]flowNode{n, t}] {
				continue
			}
			if !seen[t] {
				seen[t] = true
				work = append(work, t)
			}
		}
	}
	return seen
}

// roots: the goroutines (spawned functions, or entry functions) on which code of fn can run
func (a *ownAnalysis) roots(fn *ssa.Function) map[*ssa.Function]bool {
	out := map[*ssa.Function]bool{}
	seen := map[*ssa.Function]bool{}
	var walk func(f *ssa.Function)
	walk = func(f *ssa.Function) {
		if seen[f] {
			return
		}
		seen[f] = true
		if len(a.goTargets[f]) > 0 {
			out[f] = true
		}
		cs := a.syncCallers[f]
		if len(cs) == 0 && len(a.goTargets[f]) == 0 {
			out[f] = true // entry function (called from outside the analysed code)
		}
		for _, c := range cs {
			walk(c)
		}
	}
	walk(fn)
	return out
}

func inCycle(b *ssa.BasicBlock) bool {
	seen := map[*ssa.BasicBlock]bool{}
	var work []*ssa.BasicBlock
	work = append(work, b.Succs...)
	for len(work) > 0 {
		n := work[len(work)-1]
		work = work[:len(work)-1]
		if n == b {
			return true
		}
		if seen[n] {
			continue
		}
		seen[n] = true
		work = append(work, n.Succs...)
	}
	return false
}

// reachableAfter: can control flow from instruction `from` reach instruction `to` (same function)?
func reachableAfter(from, to ssa.Instruction) bool {
	fb, tb := from.Block(), to.Block()
	if fb == tb {
		fi, ti := -1, -1
		for i, ins := range fb.Instrs {
			if ins == from {
				fi = i
			}
			if ins == to {
				ti = i
			}
		}
		if ti > fi {
			return true
		}
		return inCycle(fb)
	}
	seen := map[*ssa.BasicBlock]bool{}
	work := append([]*ssa.BasicBlock(nil), fb.Succs...)
	for len(work) > 0 {
		n := work[len(work)-1]
		work = work[:len(work)-1]
		if n == tb {
			return true
		}
		if seen[n] {
			continue
		}
		seen[n] = true
		work = append(work, n.Succs...)
	}
	return false
}

func fnName(fn *ssa.Function) string {
	if k := funcKey(fn); k != "" {
		return k
	}
	return fn.String()
}

func (a *ownAnalysis) makeName(m *ssa.MakeChan) string {
	name := ""
	// the variable the channel is stored to / bound as
	for _, r := range *m.Referrers() {
		switch x := r.(type) {
		case *ssa.Store:
			if al, ok := x.Addr.(*ssa.Alloc); ok && al.Comment != "" {
				name = al.Comment
			}
		case *ssa.DebugRef:
			if id, ok := x.Expr.(interface{ String() string }); ok && name == "" {
				_ = id
			}
			if o := x.Object(); o != nil && name == "" {
				name = o.Name()
			}
		}
	}
	if name == "" {
		n := 0
		for _, b := range m.Parent().Blocks {
			for _, ins := range b.Instrs {
				if mm, ok := ins.(*ssa.MakeChan); ok {
					if mm == m {
						name = fmt.Sprintf("#%d", n)
					}
					n++
				}
			}
		}
	}
	return fnName(m.Parent()) + ":" + name
}

func isWGCall(cc *ssa.CallCommon, method string) bool {
	sc := cc.StaticCallee()
	return sc != nil && sc.String() == "(*sync.WaitGroup)."+method
}

// wgOrigins: the WaitGroup allocations a *sync.WaitGroup value may point to
func (a *ownAnalysis) wgOrigins(v ssa.Value) map[flowNode]bool {
	out := map[flowNode]bool{}
	for _, fn := range a.fns {
		for _, b := range fn.Blocks {
			for _, ins := range b.Instrs {
				al, ok := ins.(*ssa.Alloc)
				if !ok || typeKey(al.Type()) != "*sync.WaitGroup" {
					continue
				}
				if a.reach(al, true)[v] {
					out[al] = true
				}
			}
		}
	}
	return out
}

func overlap(x, y map[flowNode]bool) bool {
	for k := range x {
		if y[k] {
			return true
		}
	}
	return false
}

// doneWGs: WaitGroups on which fn signals Done (deferred or direct)
func (a *ownAnalysis) doneWGs(fn *ssa.Function) map[flowNode]bool {
	out := map[flowNode]bool{}
	for _, b := range fn.Blocks {
		for _, ins := range b.Instrs {
			var cc *ssa.CallCommon
			switch c := ins.(type) {
			case *ssa.Call:
				cc = &c.Call
			case *ssa.Defer:
				cc = &c.Call
			}
			if cc != nil && isWGCall(cc, "Done") && len(cc.Args) > 0 {
				for k := range a.wgOrigins(cc.Args[0]) {
					out[k] = true
				}
			}
		}
	}
	return out
}

type waitSite struct {
	instr ssa.Instruction
	wgs   map[flowNode]bool
}

func (a *ownAnalysis) waitSites(fn *ssa.Function) []waitSite {
	var out []waitSite
	for _, b := range fn.Blocks {
		for _, ins := range b.Instrs {
			if c, ok := ins.(*ssa.Call); ok && isWGCall(&c.Call, "Wait") && len(c.Call.Args) > 0 {
				out = append(out, waitSite{ins, a.wgOrigins(c.Call.Args[0])})
			}
		}
	}
	return out
}

func returnBlocks(fn *ssa.Function) []*ssa.BasicBlock {
	var out []*ssa.BasicBlock
	for _, b := range fn.Blocks {
		if b == fn.Recover {
			continue
		}
		if len(b.Instrs) > 0 {
			if _, ok := b.Instrs[len(b.Instrs)-1].(*ssa.Return); ok {
				out = append(out, b)
			}
		}
	}
	return out
}

func dominatesAllReturns(ins ssa.Instruction) bool {
	fn := ins.Parent()
	rs := returnBlocks(fn)
	if len(rs) == 0 {
		return false
	}
	for _, r := range rs {
		if !ins.Block().Dominates(r) {
			return false
		}
	}
	return true
}

// paramIndex: v is parameter i of fn (possibly through a change of channel direction)
func paramIndex(fn *ssa.Function, v ssa.Value) int {
	for k := 0; k < 4; k++ {
		if ct, ok := v.(*ssa.ChangeType); ok {
			v = ct.X
		}
	}
	for i, p := range fn.Params {
		if p == v {
			return i
		}
	}
	return -1
}

// attribute: an operation inside helper H on its parameter idx is an operation of whoever calls H with an alias
// of m: the calling function for a synchronous call (recursively, if it only forwards its own parameter), the
// spawned function itself for a go statement.
func (a *ownAnalysis) attribute(m *ssa.MakeChan, h *ssa.Function, idx int, deferred bool, depth int) []chanSite {
	var out []chanSite
	if depth > 6 {
		return nil
	}
	al := a.alias[m]
	for _, l := range a.linkSites[h] {
		var cc *ssa.CallCommon
		isGo := false
		switch c := l.(type) {
		case *ssa.Call:
			cc = &c.Call
		case *ssa.Defer:
			cc = &c.Call
		case *ssa.Go:
			cc, isGo = &c.Call, true
		}
		if cc == nil {
			continue
		}
		k := idx
		var arg ssa.Value
		if cc.IsInvoke() {
			if k == 0 {
				arg = cc.Value
			} else if k-1 < len(cc.Args) {
				arg = cc.Args[k-1]
			}
		} else if k < len(cc.Args) {
			arg = cc.Args[k]
		}
		if arg == nil || !al[arg] {
			continue
		}
		if isGo {
			out = append(out, chanSite{instr: l, fn: h, val: arg, deferred: deferred, viaCall: true})
			continue
		}
		if j := paramIndex(l.Parent(), arg); j >= 0 {
			out = append(out, a.attribute(m, l.Parent(), j, deferred, depth+1)...)
			continue
		}
		_, isDefer := l.(*ssa.Defer)
		out = append(out, chanSite{instr: l, fn: l.Parent(), val: arg, deferred: deferred || isDefer, viaCall: true})
	}
	return out
}

func (a *ownAnalysis) sites(m *ssa.MakeChan) (closes, sends []chanSite) {
	al := a.alias[m]
	addSend := func(ins ssa.Instruction, fn *ssa.Function, ch ssa.Value) {
		if !al[ch] {
			return
		}
		if i := paramIndex(fn, ch); i >= 0 && fn != m.Parent() {
			sends = append(sends, a.attribute(m, fn, i, false, 0)...)
			return
		}
		sends = append(sends, chanSite{instr: ins, fn: fn, val: ch})
	}
	addClose := func(ins ssa.Instruction, fn *ssa.Function, ch ssa.Value, deferred bool) {
		if !al[ch] {
			return
		}
		if i := paramIndex(fn, ch); i >= 0 && fn != m.Parent() {
			closes = append(closes, a.attribute(m, fn, i, deferred, 0)...)
			return
		}
		closes = append(closes, chanSite{instr: ins, fn: fn, val: ch, deferred: deferred})
	}
	for _, fn := range a.fns {
		for _, b := range fn.Blocks {
			for _, ins := range b.Instrs {
				switch x := ins.(type) {
				case *ssa.Send:
					addSend(ins, fn, x.Chan)
				case *ssa.Select:
					for _, s := range x.States {
						if s.Dir == types.SendOnly {
							addSend(ins, fn, s.Chan)
						}
					}
				case *ssa.Call:
					if bi, ok := x.Call.Value.(*ssa.Builtin); ok && bi.Name() == "close" {
						addClose(ins, fn, x.Call.Args[0], false)
					}
				case *ssa.Defer:
					if bi, ok := x.Call.Value.(*ssa.Builtin); ok && bi.Name() == "close" {
						addClose(ins, fn, x.Call.Args[0], true)
					}
				}
			}
		}
	}
	return
}

func rootNames(rs map[*ssa.Function]bool) string {
	var ns []string
	for r := range rs {
		ns = append(ns, fnName(r))
	}
	sort.Strings(ns)
	return strings.Join(ns, ", ")
}

// spawnedOnce: the function runs at most once per execution of `top` (every link from top down to fn is a
// call/defer/go site outside any loop)
func (a *ownAnalysis) spawnedOnce(fn, top *ssa.Function) (bool, string) {
	f := fn
	for f != top {
		if f == nil {
			return false, "not nested in the creating function"
		}
		sites := a.linkSites[f]
		if len(sites) == 0 {
			return false, fnName(f) + " is never invoked"
		}
		if len(sites) > 1 {
			return false, fnName(f) + " is invoked from more than one site"
		}
		if inCycle(sites[0].Block()) {
			return false, fnName(f) + " is invoked inside a loop"
		}
		f = sites[0].Parent()
		if f != top && f.Parent() == nil && f != fn {
			// reached a named function that is not the creator
			return false, "reaches " + fnName(f)
		}
	}
	return true, ""
}

// handsDown: instructions of fn that pass an alias of m to a function that (transitively) sends on it
func (a *ownAnalysis) callsPassing(fn *ssa.Function, m *ssa.MakeChan) []ssa.Instruction {
	var out []ssa.Instruction
	al := a.alias[m]
	for _, b := range fn.Blocks {
		for _, ins := range b.Instrs {
			var cc *ssa.CallCommon
			switch c := ins.(type) {
			case *ssa.Call:
				cc = &c.Call
			case *ssa.Defer:
				cc = &c.Call
			}
			if cc == nil {
				continue
			}
			if _, ok := cc.Value.(*ssa.Builtin); ok {
				continue
			}
			for _, ar := range cc.Args {
				if al[ar] {
					out = append(out, ins)
				}
			}
		}
	}
	return out
}

type ownResult struct {
	name string
	ok   bool
	msg  string
}

func (a *ownAnalysis) checkChannels() []ownResult {
	var res []ownResult
	for _, m := range a.makes {
		name := a.makeName(m)
		closes, sends := a.sites(m)
		maker := m.Parent()
		// ---- close-owner
		byRoot := map[*ssa.Function][]chanSite{}
		for _, c := range closes {
			for r := range a.roots(c.fn) {
				byRoot[r] = append(byRoot[r], c)
			}
		}
		ok, msg := true, fmt.Sprintf("%d close site(s)", len(closes))
		var closerRoot *ssa.Function
		if len(closes) == 0 {
			msg = "never closed"
		}
		for _, c := range closes {
			if !a.aliasNoRet[m][c.val] {
				ok = false
				msg = fmt.Sprintf("closed in %s, which only received the channel through a return value (receivers never close)", fnName(c.fn))
			}
		}
		var rootsList []*ssa.Function
		for r := range byRoot {
			rootsList = append(rootsList, r)
		}
		sort.Slice(rootsList, func(i, j int) bool { return fnName(rootsList[i]) < fnName(rootsList[j]) })
		var others []*ssa.Function
		for _, r := range rootsList {
			inMakerOnly := true
			for _, c := range byRoot[r] {
				if c.fn != maker {
					inMakerOnly = false
				}
			}
			if inMakerOnly && len(rootsList) > 1 {
				// closes in the creating function: must not be able to reach a spawn afterwards
				for _, c := range byRoot[r] {
					for _, b := range maker.Blocks {
						for _, ins := range b.Instrs {
							if g, isGo := ins.(*ssa.Go); isGo && reachableAfter(c.instr, g) {
								ok = false
								msg = fmt.Sprintf("%s closes the channel and can still spawn a goroutine afterwards", fnName(maker))
							}
						}
					}
				}
				continue
			}
			others = append(others, r)
		}
		if len(others) > 1 {
			ok = false
			var ns []string
			for _, r := range others {
				ns = append(ns, fnName(r))
			}
			msg = "closed by more than one goroutine: " + strings.Join(ns, ", ")
		}
		if len(others) == 1 {
			closerRoot = others[0]
		} else if len(rootsList) == 1 {
			closerRoot = rootsList[0]
		}
		res = append(res, ownResult{"chan[" + name + "]#close-owner", ok, msg})
		// ---- close-once
		ok, msg = true, "at most one close per channel"
		for i, c := range closes {
			if inCycle(c.instr.Block()) {
				ok = false
				msg = fmt.Sprintf("close in %s is inside a loop", fnName(c.fn))
			}
			if c.fn != maker {
				if o, why := a.spawnedOnce(c.fn, maker); !o {
					ok = false
					msg = fmt.Sprintf("closing function %s may run more than once per channel: %s", fnName(c.fn), why)
				}
			}
			for j, d := range closes {
				if i != j && c.fn == d.fn && reachableAfter(c.instr, d.instr) && !(c.deferred != d.deferred) {
					ok = false
					msg = fmt.Sprintf("two close statements of %s can both execute", fnName(c.fn))
				}
				if i != j && c.fn == d.fn && c.deferred != d.deferred {
					// a deferred and a direct close in one function: the direct one must not be reachable after the defer
					df, dr := c, d
					if d.deferred {
						df, dr = d, c
					}
					if reachableAfter(df.instr, dr.instr) {
						ok = false
						msg = fmt.Sprintf("%s closes directly after registering a deferred close", fnName(c.fn))
					}
				}
			}
		}
		res = append(res, ownResult{"chan[" + name + "]#close-once", ok, msg})
		// ---- send-live
		ok, msg = true, fmt.Sprintf("%d send site(s)", len(sends))
		if closerRoot != nil {
			for _, s := range sends {
				sr := a.roots(s.fn)
				for r := range sr {
					if r == closerRoot {
						// same goroutine: no send reachable after a direct close
						for _, c := range closes {
							if c.deferred {
								continue
							}
							if c.fn == s.fn && reachableAfter(c.instr, s.instr) {
								ok = false
								msg = fmt.Sprintf("send in %s is reachable after close", fnName(s.fn))
							}
							if c.fn != s.fn {
								for _, call := range a.callsPassing(c.fn, m) {
									if reachableAfter(c.instr, call) {
										ok = false
										msg = fmt.Sprintf("%s hands the channel to a sender after closing it", fnName(c.fn))
									}
								}
							}
						}
						continue
					}
					if s.fn == maker && !s.viaCall {
						// the creating function itself sends: fine while it has not yet spawned anything and has not closed
						bad := false
						for _, b := range maker.Blocks {
							for _, ins := range b.Instrs {
								if g, isGo := ins.(*ssa.Go); isGo && reachableAfter(g, s.instr) {
									bad = true
								}
							}
						}
						for _, c := range closes {
							if c.fn == maker && !c.deferred && reachableAfter(c.instr, s.instr) {
								bad = true
							}
						}
						if bad {
							ok = false
							msg = fmt.Sprintf("%s sends after it spawned the closing goroutine or closed the channel", fnName(maker))
						}
						continue
					}
					// another goroutine sends: it must be joined before the close
					done := a.doneWGs(r)
					joined := false
					for _, c := range closes {
						if !a.roots(c.fn)[closerRoot] {
							continue
						}
						for _, w := range a.waitSites(c.fn) {
							if !overlap(w.wgs, done) {
								continue
							}
							if c.deferred && dominatesAllReturns(w.instr) {
								joined = true
							}
							if !c.deferred && (w.instr.Block() == c.instr.Block() && reachableAfter(w.instr, c.instr) && !reachableAfter(c.instr, w.instr) ||
								w.instr.Block() != c.instr.Block() && w.instr.Block().Dominates(c.instr.Block())) {
								joined = true
							}
						}
					}
					if !joined {
						ok = false
						msg = fmt.Sprintf("goroutine %s sends, goroutine %s closes, and the closer does not Wait for the sender (wg.Done in the sender, wg.Wait before close)", fnName(r), fnName(closerRoot))
					}
				}
			}
		}
		if !ok && debugOwn {
			for _, sd := range sends {
				fmt.Printf("DEBUG send %s in %s at %s via=%v roots=%s\n", name, fnName(sd.fn), a.p.Prog.Fset.Position(sd.instr.Pos()), sd.viaCall, rootNames(a.roots(sd.fn)))
			}
		}
		res = append(res, ownResult{"chan[" + name + "]#send-live", ok, msg})
	}
	return res
}

// ---------------------------------------------------------------------------------------------
// cancel-guard

func isCtxDone(v ssa.Value) bool {
	c, ok := v.(*ssa.Call)
	if !ok || !c.Call.IsInvoke() || c.Call.Method.Name() != "Done" {
		return false
	}
	return typeKey(c.Call.Value.Type()) == "context.Context"
}

type guardCtx struct {
	a     *ownAnalysis
	memo  map[*ssa.Function]string // "" = guarded, otherwise reason; "?" in progress
	chain []string
}

// chanClosers: the make sites a channel value may come from
func (a *ownAnalysis) originsOf(v ssa.Value) []*ssa.MakeChan {
	var out []*ssa.MakeChan
	for _, m := range a.makes {
		if a.alias[m][v] {
			out = append(out, m)
		}
	}
	return out
}

// guardedRoot: reason why goroutine root r is not cancel-guarded ("" if it is)
func (g *guardCtx) guardedRoot(r *ssa.Function) string {
	if v, ok := g.memo[r]; ok {
		if v == "?" {
			return "" // cycle: assume (co-inductive)
		}
		return v
	}
	g.memo[r] = "?"
	reason := ""
	seen := map[*ssa.Function]bool{}
	var visit func(fn *ssa.Function)
	visit = func(fn *ssa.Function) {
		if seen[fn] || reason != "" {
			return
		}
		seen[fn] = true
		for _, b := range fn.Blocks {
			for _, ins := range b.Instrs {
				if reason != "" {
					return
				}
				switch x := ins.(type) {
				case *ssa.Send:
					reason = fmt.Sprintf("%s: send outside a select with ctx.Done()", fnName(fn))
				case *ssa.UnOp:
					if x.Op == token.ARROW {
						if why := g.recvOK(x.X); why != "" {
							reason = fmt.Sprintf("%s: receive not guarded by ctx.Done(): %s", fnName(fn), why)
						}
					}
				case *ssa.Select:
					if !x.Blocking {
						continue
					}
					guarded := false
					for _, s := range x.States {
						if isCtxDone(s.Chan) {
							guarded = true
						}
					}
					if !guarded {
						for _, s := range x.States {
							if s.Dir == types.SendOnly {
								reason = fmt.Sprintf("%s: select with a send and no ctx.Done() case", fnName(fn))
							} else if why := g.recvOK(s.Chan); why != "" {
								reason = fmt.Sprintf("%s: select without ctx.Done() case: %s", fnName(fn), why)
							}
						}
					}
				case *ssa.Call:
					if isWGCall(&x.Call, "Wait") && len(x.Call.Args) > 0 {
						wgs := g.a.wgOrigins(x.Call.Args[0])
						for _, f := range g.a.fns {
							if len(g.a.goTargets[f]) == 0 {
								continue
							}
							if overlap(g.a.doneWGs(f), wgs) {
								if why := g.guardedRoot(f); why != "" {
									reason = fmt.Sprintf("%s waits for %s: %s", fnName(fn), fnName(f), why)
								}
							}
						}
					}
					for _, c := range g.a.callees(&x.Call) {
						visit(c)
					}
				case *ssa.Defer:
					for _, c := range g.a.callees(&x.Call) {
						visit(c)
					}
				}
			}
		}
	}
	visit(r)
	g.memo[r] = reason
	return reason
}

// recvOK: an unguarded receive is fine if the channel is closed on every exit of a cancel-guarded goroutine
func (g *guardCtx) recvOK(v ssa.Value) string {
	ms := g.a.originsOf(v)
	if len(ms) == 0 {
		return "channel of unknown origin (e.g. a timer) is not closed on cancellation"
	}
	for _, m := range ms {
		closes, _ := g.a.sites(m)
		if len(closes) == 0 {
			return "channel " + g.a.makeName(m) + " is never closed"
		}
		for _, c := range closes {
			if !c.deferred && !dominatesAllReturns(c.instr) && len(returnBlocks(c.fn)) > 0 {
				// a direct close that is not on every exit path: every path of that function from its entry to a return
				// must close the channel itself or start the goroutine that closes it
				if !closedOrHandedOverOnEveryPath(c.fn, closes) {
					return "channel " + g.a.makeName(m) + " is not closed on every exit of " + fnName(c.fn)
				}
			}
			for r := range g.a.roots(c.fn) {
				if r == c.fn || len(g.a.goTargets[r]) > 0 {
					if len(g.a.goTargets[r]) == 0 {
						continue // closed synchronously by the creating function (error path)
					}
					if why := g.guardedRoot(r); why != "" {
						return "closer of " + g.a.makeName(m) + " is not cancel-guarded: " + why
					}
				}
			}
		}
	}
	return ""
}

// checkWaitPath: the goroutines joined by the Wait of fnKey must be cancel-guarded
func (a *ownAnalysis) checkWaitPath(fnKey string) []ownResult {
	fn := a.p.Funcs[fnKey]
	if fn == nil {
		return []ownResult{{"wait[" + fnKey + "]#cancel-guard", false, "anchor-missing " + fnKey}}
	}
	var res []ownResult
	g := &guardCtx{a: a, memo: map[*ssa.Function]string{}}
	ws := a.waitSites(fn)
	if len(ws) == 0 {
		return []ownResult{{"wait[" + fnKey + "]#cancel-guard", false, fnKey + " no longer joins its helper goroutines with a WaitGroup"}}
	}
	n := 0
	for _, w := range ws {
		for _, f := range a.fns {
			if len(a.goTargets[f]) == 0 || !overlap(a.doneWGs(f), w.wgs) {
				continue
			}
			n++
			why := g.guardedRoot(f)
			msg := "every blocking operation reachable from " + fnName(f) + " yields to cancellation"
			if why != "" {
				msg = why
			}
			res = append(res, ownResult{"wait[" + fnKey + "]#cancel-guard[" + fnName(f) + "]", why == "", msg})
		}
	}
	if n == 0 {
		res = append(res, ownResult{"wait[" + fnKey + "]#cancel-guard", false, "no joined goroutine found"})
	}
	return res
}

// closedOrHandedOverOnEveryPath: every path of fn from its entry to a return passes a direct close among `closes`,
// or a go statement that starts a function which closes the channel on each of its own exits (deferred, or a close
// that dominates all its returns).
func closedOrHandedOverOnEveryPath(fn *ssa.Function, closes []chanSite) bool {
	closerFn := map[*ssa.Function]bool{}
	closing := map[*ssa.BasicBlock]bool{}
	for _, c := range closes {
		if c.fn == fn && !c.deferred {
			closing[c.instr.Block()] = true
		}
		if c.fn != fn && (c.deferred || dominatesAllReturns(c.instr)) {
			closerFn[c.fn] = true
		}
	}
	for _, b := range fn.Blocks {
		for _, ins := range b.Instrs {
			if g, ok := ins.(*ssa.Go); ok {
				var t *ssa.Function
				if mc, ok := g.Call.Value.(*ssa.MakeClosure); ok {
					t, _ = mc.Fn.(*ssa.Function)
				} else {
					t = g.Call.StaticCallee()
				}
				if t != nil && closerFn[t] {
					closing[b] = true
				}
			}
		}
	}
	if len(fn.Blocks) == 0 {
		return false
	}
	seen := map[*ssa.BasicBlock]bool{}
	var dfs func(b *ssa.BasicBlock) bool
	dfs = func(b *ssa.BasicBlock) bool {
		if seen[b] || closing[b] {
			return true
		}
		seen[b] = true
		if _, isRet := b.Instrs[len(b.Instrs)-1].(*ssa.Return); isRet {
			return false
		}
		for _, s := range b.Succs {
			if !dfs(s) {
				return false
			}
		}
		return true
	}
	return dfs(fn.Blocks[0])
}
