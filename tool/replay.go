package main

import (
	"encoding/json"
	"fmt"
	"os"
)

// tryReplay turns the solver's counterexample into a run of the real code (go test -overlay) when a
// replay template is registered for the obligation's function; otherwise the violation is reported with
// the solver output only (no-failing-input-found).
func tryReplay(rf *ReplayFile, o *Obligation, p *Program, repo string) {
	if o.Kind == "bounded" && o.BoundedTest != "" {
		// the bounded enumeration ran on the real code and failed: its test and output ARE the replay
		rf.TestPkg, rf.TestFile, rf.GoTestOut, rf.Reproduced = "command", o.BoundedTest, o.BoundedOut, true
		return
	}
	for _, t := range replayTemplates {
		if t.match(o) {
			t.run(rf, o, p, repo)
			return
		}
	}
	defer func() {
		// a failure of the replay machinery never changes the verdict: the violation is reported without a replay
		if r := recover(); r != nil {
			rf.ReplayNote = fmt.Sprintf("replay generator failed: %v", r)
			rf.TestFile = ""
			rf.Reproduced = false
		}
	}()
	genericReplay(rf, o, p, repo)
}

type replayTemplate struct {
	match func(o *Obligation) bool
	run   func(rf *ReplayFile, o *Obligation, p *Program, repo string)
}

var replayTemplates []replayTemplate

func cmdReplay(args []string) int {
	if len(args) < 1 {
		fmt.Fprintln(os.Stderr, "usage: sxv replay <file>")
		return 2
	}
	data, err := os.ReadFile(args[0])
	if err != nil {
		fmt.Fprintln(os.Stderr, err)
		return 2
	}
	var rf ReplayFile
	if err := json.Unmarshal(data, &rf); err != nil {
		fmt.Fprintln(os.Stderr, err)
		return 2
	}
	fmt.Printf("property %s\nobligation %s\n%s\nsolver: %s -> %s\n", rf.Property, rf.Obligation, rf.Text, rf.Solver, rf.Result)
	if rf.TestFile != "" {
		out, failed := runOverlayTest("/repo", rf.TestPkg, rf.TestFile, "TestSxvReplay")
		fmt.Println(out)
		if failed {
			fmt.Println("REPRODUCED on the current tree")
			return 1
		}
		fmt.Println("not reproduced on the current tree")
		return 0
	}
	fmt.Println("no replay test for this obligation (no-failing-input-found); solver output:")
	fmt.Println(rf.SolverOut)
	return 0
}
