package main

// Package-level tables (composite literals) under contract: every `fact` of a `table` block is
// (a) proved row by row on the literal re-read from /repo's source on every run (ground terms over
//     numerals; the computable spec functions prim and coprime are decided by exhaustive arithmetic), and
// (b) assumed, as stated, wherever a function under contract loads the global.

import (
	"fmt"
	"go/ast"
	"go/constant"
	"go/types"
	"math/big"
	"strings"

	"golang.org/x/tools/go/packages"
)

type TableLit struct {
	Name   string
	Elem   types.Type
	Rows   [][]Val // numerals per field
	Fields []string
}

func (ex *Executor) findTableLit(pkgRel, name string) (*TableLit, error) {
	var pkg *packages.Package
	for _, p := range ex.P.Pkgs {
		if relPkg(p.PkgPath) == pkgRel {
			pkg = p
		}
	}
	if pkg == nil {
		return nil, fmt.Errorf("package %s not loaded", pkgRel)
	}
	for _, f := range pkg.Syntax {
		for _, d := range f.Decls {
			gd, ok := d.(*ast.GenDecl)
			if !ok {
				continue
			}
			for _, sp := range gd.Specs {
				vs, ok := sp.(*ast.ValueSpec)
				if !ok {
					continue
				}
				for i, n := range vs.Names {
					if n.Name != name || i >= len(vs.Values) {
						continue
					}
					cl, ok := vs.Values[i].(*ast.CompositeLit)
					if !ok {
						return nil, fmt.Errorf("%s is not a composite literal", name)
					}
					tv := pkg.TypesInfo.TypeOf(cl)
					sl, ok := tv.Underlying().(*types.Slice)
					if !ok {
						return nil, fmt.Errorf("%s is not a slice literal", name)
					}
					st := structOf(sl.Elem())
					if st == nil {
						return nil, fmt.Errorf("%s: element type is not a struct", name)
					}
					t := &TableLit{Name: name, Elem: sl.Elem()}
					for k := 0; k < st.NumFields(); k++ {
						t.Fields = append(t.Fields, st.Field(k).Name())
					}
					for _, el := range cl.Elts {
						rl, ok := el.(*ast.CompositeLit)
						if !ok {
							return nil, fmt.Errorf("%s: row is not a literal", name)
						}
						row := make([]Val, st.NumFields())
						for k := range row {
							row[k] = Val{T: Num(0), Ty: st.Field(k).Type()}
						}
						for k, fe := range rl.Elts {
							var valExpr ast.Expr
							idx := k
							if kv, ok := fe.(*ast.KeyValueExpr); ok {
								valExpr = kv.Value
								idx = -1
								for j, fn := range t.Fields {
									if id, ok := kv.Key.(*ast.Ident); ok && id.Name == fn {
										idx = j
									}
								}
							} else {
								valExpr = fe
							}
							if idx < 0 || idx >= len(row) {
								return nil, fmt.Errorf("%s: bad field in row", name)
							}
							cv := pkg.TypesInfo.Types[valExpr].Value
							if cv == nil || cv.Kind() != constant.Int {
								return nil, fmt.Errorf("%s: non-constant field value", name)
							}
							b, _ := new(big.Int).SetString(cv.ExactString(), 10)
							row[idx] = Val{T: NumB(b), Ty: st.Field(idx).Type()}
						}
						t.Rows = append(t.Rows, row)
					}
					return t, nil
				}
			}
		}
	}
	return nil, fmt.Errorf("anchor-missing: table %s not found in %s", name, pkgRel)
}

// VerifyTable proves every fact of the table block on the literal.
func (ex *Executor) VerifyTable(ts *TableSpec) {
	ex.unitKey = ts.Pkg + "." + ts.Global
	ex.unitProps = ts.Props
	ex.unitSpec = nil
	lit, err := ex.findTableLit(ts.Pkg, ts.Global)
	if err != nil {
		ex.errf("%v", err)
		return
	}
	st := &State{heap: map[string]*Term{}, alloc: Num(0)}
	for _, f := range ts.Facts {
		e := f.Expr
		if e.Kind == "forall" && len(e.Bound) == 1 {
			for k := range lit.Rows {
				env := &SpecEnv{ex: ex, st: st, vars: map[string]Val{}, pkgRel: ts.Pkg}
				env.vars["T"] = Val{Tab: lit, Ty: types.NewSlice(lit.Elem)}
				env.vars[e.Bound[0].Name] = Val{T: Num(int64(k))}
				v, err := ex.evalSpec(e.Args[0], env)
				if err != nil {
					ex.errf("table %s fact %s: %v", ts.Global, f.Label, err)
					return
				}
				g, why := groundEval(v.T)
				ok := g.IsTrue()
				msg := fmt.Sprintf("row %d %s: %s", k, rowString(lit, k), f.Text)
				if !ok {
					msg += " FAILS: " + why + " (residual: " + g.String() + ")"
				}
				ex.addStructural(nil, "table", fmt.Sprintf("row %d: %s", k, f.Label), ok, msg, f.Tags)
			}
			continue
		}
		env := &SpecEnv{ex: ex, st: st, vars: map[string]Val{}, pkgRel: ts.Pkg}
		env.vars["T"] = Val{Tab: lit, Ty: types.NewSlice(lit.Elem)}
		v, err := ex.evalSpec(e, env)
		if err != nil {
			ex.errf("table %s fact %s: %v", ts.Global, f.Label, err)
			return
		}
		g, why := groundEval(v.T)
		msg := f.Text
		if !g.IsTrue() {
			msg += " FAILS: " + why + " (residual: " + g.String() + ")"
		}
		ex.addStructural(nil, "table", f.Label, g.IsTrue(), msg, f.Tags)
	}
}

func rowString(l *TableLit, k int) string {
	var ps []string
	for i, f := range l.Fields {
		ps = append(ps, f+"="+l.Rows[k][i].T.String())
	}
	return "{" + strings.Join(ps, " ") + "}"
}

// tableFactsFor: the facts assumed when a contracted function loads the global.
func (ex *Executor) assumeTableFacts(st *State, pkgRel, global string, gv Val) {
	for _, ts := range ex.S.Tables {
		if ts.Pkg != pkgRel || ts.Global != global {
			continue
		}
		lit, err := ex.findTableLit(ts.Pkg, ts.Global)
		if err != nil {
			ex.errf("%v", err)
			return
		}
		st.assume(Eq(ex.slen(gv.T), Num(int64(len(lit.Rows)))))
		st.assume(Ge(ex.soff(gv.T), Num(0)))
		for _, f := range ts.Facts {
			env := &SpecEnv{ex: ex, st: st, vars: map[string]Val{"T": gv}, pkgRel: ts.Pkg}
			v, err := ex.evalSpec(f.Expr, env)
			if err != nil {
				ex.errf("table %s fact %s: %v", ts.Global, f.Label, err)
				return
			}
			st.assume(v.T)
		}
		ex.Assumed["table facts of "+pkgRel+"."+global+" (each proved row by row on the literal in the same run)"] = true
	}
}

// ---------------------------------------------------------------------------------------------
// ground evaluation of computable spec functions

// groundEval folds a ground term; applications of spec.prim / spec.coprime on numerals are decided.
func groundEval(t *Term) (*Term, string) {
	why := ""
	var rec func(t *Term) *Term
	rec = func(t *Term) *Term {
		if len(t.Args) == 0 {
			return t
		}
		args := make([]*Term, len(t.Args))
		for i, a := range t.Args {
			args[i] = rec(a)
		}
		if t.Op == "app" {
			allNum := true
			for _, a := range args {
				if !a.IsNum() {
					allNum = false
				}
			}
			if allNum {
				switch t.Name {
				case "spec.prim":
					ok, w := isPrimitiveRoot(args[0].Num, args[1].Num)
					if !ok {
						why += fmt.Sprintf("prim(%s,%s) is false: %s; ", args[0].Num, args[1].Num, w)
					}
					return Bool(ok)
				case "spec.coprime":
					g := new(big.Int).GCD(nil, nil, new(big.Int).Abs(args[0].Num), new(big.Int).Abs(args[1].Num))
					ok := g.Cmp(big.NewInt(1)) == 0
					if !ok {
						why += fmt.Sprintf("gcd(%s,%s) = %s; ", args[0].Num, args[1].Num, g)
					}
					return Bool(ok)
				}
			}
		}
		return rebuild(t, args)
	}
	r := rec(t)
	if !r.IsTrue() && why == "" {
		why = "evaluates to " + r.String()
	}
	return r, why
}

// primeFactors by exhaustive trial division (arguments are < 2^34 here; the bound is checked).
func primeFactors(n *big.Int) ([]*big.Int, bool) {
	if n.BitLen() > 40 {
		return nil, false
	}
	m := n.Uint64()
	var out []*big.Int
	for d := uint64(2); d*d <= m; d++ {
		if m%d == 0 {
			out = append(out, new(big.Int).SetUint64(d))
			for m%d == 0 {
				m /= d
			}
		}
	}
	if m > 1 {
		out = append(out, new(big.Int).SetUint64(m))
	}
	return out, true
}

func isPrimeTD(n *big.Int) bool {
	if n.BitLen() > 40 || n.Cmp(big.NewInt(2)) < 0 {
		return false
	}
	m := n.Uint64()
	for d := uint64(2); d*d <= m; d++ {
		if m%d == 0 {
			return false
		}
	}
	return true
}

// isPrimitiveRoot: p prime (exhaustive trial division) and for every prime q | p-1: g^((p-1)/q) mod p != 1,
// and g^(p-1) mod p == 1 (order criterion; the criterion itself is lemma prim_criterion).
func isPrimitiveRoot(g, p *big.Int) (bool, string) {
	if !isPrimeTD(p) {
		return false, fmt.Sprintf("%s is not prime (or out of the certifier's range)", p)
	}
	pm1 := new(big.Int).Sub(p, big.NewInt(1))
	gm := new(big.Int).Mod(g, p)
	if gm.Sign() == 0 {
		return false, "g ≡ 0 mod p"
	}
	if p.Cmp(big.NewInt(2)) == 0 {
		return true, ""
	}
	if new(big.Int).Exp(gm, pm1, p).Cmp(big.NewInt(1)) != 0 {
		return false, "g^(p-1) mod p != 1"
	}
	qs, ok := primeFactors(pm1)
	if !ok {
		return false, "p-1 out of range"
	}
	for _, q := range qs {
		e := new(big.Int).Div(pm1, q)
		if new(big.Int).Exp(gm, e, p).Cmp(big.NewInt(1)) == 0 {
			return false, fmt.Sprintf("%s^((p-1)/%s) mod %s = 1: the order of g divides (p-1)/%s, g is not a generator", g, q, p, q)
		}
	}
	return true, ""
}
