package main

import (
	"crypto/sha1"
	"fmt"
	"go/types"
	"math/big"
	"strings"

	"golang.org/x/tools/go/ssa"
)

// Val is a symbolic Go value.
type Val struct {
	T  *Term      // SMT term: Bool for bool, Int for everything else; nil for composites
	Ty types.Type // static Go type (nil for spec-level ints/bools)
	P  *Ptr       // pointer with known decomposition
	Fs []Val      // struct composite (by field index) or tuple
	Fn *FnVal     // known function value
	IsTuple bool
	Tab *TableLit // table literal (proof of table facts)
}

type PtrKind int

const (
	PRef    PtrKind = iota // reference to a struct object (T = ref term)
	PField                 // pointer to field Field of struct object Base (owner type Owner)
	PElem                  // pointer to element Idx of backing array Arr
	PGlobal                // pointer to a package-level variable
	PCell                  // pointer to a single cell (local variable / *int etc.)
	PFieldOfElem           // pointer to field of a struct value stored in a slice element
)

type Ptr struct {
	Kind  PtrKind
	Base  *Term
	Owner types.Type // struct type (named or anonymous) owning the field
	Field int
	Arr   *Term
	Idx   *Term
	Elem  types.Type
	G     *ssa.Global
	Sub   *Ptr // for PFieldOfElem: the element pointer
}

type FnVal struct {
	Fn   *ssa.Function
	Bind []Val
	Id   *Term
	Recv *Val // bound method receiver
}

func sortOf(t types.Type) Sort {
	if t == nil {
		return SInt
	}
	if b, ok := t.Underlying().(*types.Basic); ok && b.Info()&types.IsBoolean != 0 {
		return SBool
	}
	return SInt
}

func isStruct(t types.Type) bool {
	_, ok := t.Underlying().(*types.Struct)
	return ok
}

func isPointerLike(t types.Type) bool {
	switch t.Underlying().(type) {
	case *types.Pointer, *types.Map, *types.Chan, *types.Signature, *types.Interface, *types.Slice:
		return true
	}
	return false
}

func isBigIntPtr(t types.Type) bool {
	p, ok := t.(*types.Pointer)
	if !ok {
		return false
	}
	n, ok := p.Elem().(*types.Named)
	return ok && n.Obj().Pkg() != nil && n.Obj().Pkg().Path() == "math/big" && n.Obj().Name() == "Int"
}

func typeName(t types.Type) string {
	switch x := t.(type) {
	case *types.Named:
		if x.Obj().Pkg() == nil {
			return x.Obj().Name()
		}
		p := x.Obj().Pkg().Path()
		p = strings.TrimPrefix(strings.TrimPrefix(p, repoModule), "/")
		p = strings.ReplaceAll(p, "github.com/", "")
		if p == "" {
			p = "main"
		}
		return sanitize(p + "." + x.Obj().Name())
	case *types.Alias:
		return typeName(types.Unalias(t))
	}
	h := sha1.Sum([]byte(t.String()))
	return fmt.Sprintf("anon%x", h[:4])
}

func fieldMapName(owner types.Type, field string) string {
	return "H." + typeName(owner) + "." + field
}

func fieldFnName(owner types.Type, field string) string {
	return "F." + typeName(owner) + "." + field
}

func subFnName(owner types.Type, field string) string {
	return "sub." + typeName(owner) + "." + field
}

// integer range of a Go type
func typeRange(t types.Type) (lo, hi *big.Int, ok bool) {
	b, isb := t.Underlying().(*types.Basic)
	if !isb || b.Info()&types.IsInteger == 0 {
		return nil, nil, false
	}
	bits := 64
	switch b.Kind() {
	case types.Int8, types.Uint8:
		bits = 8
	case types.Int16, types.Uint16:
		bits = 16
	case types.Int32, types.Uint32:
		bits = 32
	}
	if b.Info()&types.IsUnsigned != 0 {
		hi = new(big.Int).Lsh(big.NewInt(1), uint(bits))
		hi.Sub(hi, big.NewInt(1))
		return big.NewInt(0), hi, true
	}
	hi = new(big.Int).Lsh(big.NewInt(1), uint(bits-1))
	lo = new(big.Int).Neg(hi)
	hi = new(big.Int).Sub(hi, big.NewInt(1))
	return lo, hi, true
}

func isUnsigned(t types.Type) bool {
	b, ok := t.Underlying().(*types.Basic)
	return ok && b.Info()&types.IsUnsigned != 0
}

func isInteger(t types.Type) bool {
	b, ok := t.Underlying().(*types.Basic)
	return ok && b.Info()&types.IsInteger != 0
}

func isString(t types.Type) bool {
	b, ok := t.Underlying().(*types.Basic)
	return ok && b.Info()&types.IsString != 0
}

func rangeFact(t *Term, ty types.Type) *Term {
	if ty == nil || t == nil || t.S != SInt {
		return tTrue
	}
	if lo, hi, ok := typeRange(ty); ok {
		if t.IsNum() {
			return tTrue
		}
		return And(Le(NumB(lo), t), Le(t, NumB(hi)))
	}
	return tTrue
}

func pow2(k uint) *big.Int { return new(big.Int).Lsh(big.NewInt(1), k) }

// wrap a mathematical integer into the range of type ty
func wrapTo(t *Term, ty types.Type) *Term {
	lo, hi, ok := typeRange(ty)
	if !ok {
		return t
	}
	if t.IsNum() && t.Num.Cmp(lo) >= 0 && t.Num.Cmp(hi) <= 0 {
		return t
	}
	size := new(big.Int).Sub(hi, lo)
	size.Add(size, big.NewInt(1))
	if lo.Sign() == 0 {
		return Mod(t, NumB(size))
	}
	// signed: ((t - lo) mod size) + lo
	return Add(Mod(Sub(t, NumB(lo)), NumB(size)), NumB(lo))
}

// ---- string literals ----

var strLits = map[string]string{} // symbol -> literal

func strLit(s string) *Term {
	h := sha1.Sum([]byte(s))
	label := ""
	for _, r := range s {
		if (r >= 'a' && r <= 'z') || (r >= 'A' && r <= 'Z') || (r >= '0' && r <= '9') {
			label += string(r)
		}
		if len(label) >= 12 {
			break
		}
	}
	name := fmt.Sprintf("str!%s!%x", label, h[:3])
	strLits[sanitize(name)] = s
	return UniqueSym(name)
}

func litOf(t *Term) (string, bool) {
	if t.Op == opSym {
		s, ok := strLits[t.Name]
		return s, ok
	}
	return "", false
}

func strLen(t *Term) *Term {
	if s, ok := litOf(t); ok {
		return Num(int64(len(s)))
	}
	if t.Op == "app" && t.Name == "strcat" {
		return Add(strLen(t.Args[0]), strLen(t.Args[1]))
	}
	return App("strlen", SInt, t)
}

// StrCat: concatenation in canonical form - nested concatenations are flattened, adjacent literals merged, empty
// literals dropped, the rest nested to the right - so that "a" + s, fmt.Sprintf("a%s", s) and "" + "a" + s are one term.
func StrCat(parts ...*Term) *Term {
	var flat []*Term
	var walk func(t *Term)
	walk = func(t *Term) {
		if t.Op == "app" && t.Name == "strcat" && len(t.Args) == 2 {
			walk(t.Args[0])
			walk(t.Args[1])
			return
		}
		if l, ok := litOf(t); ok {
			if l == "" {
				return
			}
			if n := len(flat); n > 0 {
				if pl, pok := litOf(flat[n-1]); pok {
					flat[n-1] = strLit(pl + l)
					return
				}
			}
		}
		flat = append(flat, t)
	}
	for _, p := range parts {
		walk(p)
	}
	if len(flat) == 0 {
		return strLit("")
	}
	out := flat[len(flat)-1]
	for i := len(flat) - 2; i >= 0; i-- {
		out = App("strcat", SInt, flat[i], out)
	}
	return out
}

// ---- type tags ----

func typeTag(t types.Type) *Term {
	return UniqueSym("ty!" + sanitize(strings.ReplaceAll(types.TypeString(t, func(p *types.Package) string {
		return strings.ReplaceAll(strings.TrimPrefix(strings.TrimPrefix(p.Path(), repoModule), "/"), "github.com/", "")
	}), "*", "ptr.")))
}

// ---- function ids ----

var fnIds = map[string]*ssa.Function{}

func fnId(fn *ssa.Function) *Term {
	name := "fn!" + sanitize(fn.String())
	fnIds[sanitize(name)] = fn
	return UniqueSym(name)
}

func fnOfTerm(t *Term) *ssa.Function {
	if t != nil && t.Op == opSym {
		return fnIds[t.Name]
	}
	return nil
}
