package main
