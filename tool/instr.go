package main

import (
	"fmt"
	"go/token"
	"go/types"
	"math/big"
	"strings"

	"golang.org/x/tools/go/ssa"
)

// execInstr executes one instruction on st; returns false if this path ended (or forked away).
func (ex *Executor) execInstr(st *State, fr *Frame, ins ssa.Instruction) bool {
	switch x := ins.(type) {
	case *ssa.DebugRef:
		if id, ok := x.Expr.(interface{ String() string }); ok {
			_ = id
		}
		if obj := x.Object(); obj != nil {
			if vr, isVar := obj.(*types.Var); isVar && !vr.IsField() {
				if old, ok := fr.locals[obj.Name()]; ok && old.isAddr && !x.IsAddr && isFreeVarName(fr.fn, obj.Name()) {
					// a captured / address-taken variable keeps denoting its cell (current value = load)
					return true
				}
				v := ex.value(st, fr, x.X)
				fr.locals[obj.Name()] = localRef{v: v, isAddr: x.IsAddr}
			}
		}
		return true
	case *ssa.Alloc:
		elem := x.Type().(*types.Pointer).Elem()
		ref := st.newRef(x.Comment)
		pv := Val{T: ref, Ty: x.Type()}
		if at, isArr := elem.Underlying().(*types.Array); isArr {
			pv.P = &Ptr{Kind: PCell, Base: ref, Elem: elem}
			// a new array holds zero values
			et := at.Elem()
			if _, nested := et.Underlying().(*types.Array); !nested {
				name := elemNameT(et)
				e := st.heapGet(name, arrayOf(arrayOf(sortOf(et))))
				st.heapSet(name, Store(e, ref, ex.zeroArray(st, et)))
			}
		} else {
			// zero-initialise
			ex.store(st, pv, ex.zeroVal(elem))
		}
		fr.vals[x] = pv
		return true
	case *ssa.FieldAddr:
		base := ex.value(st, fr, x.X)
		if base.T != nil && base.T.IsNum() && base.T.Num.Sign() == 0 && base.P == nil {
			// field of a pointer that is the constant nil on this path: a certain nil dereference if the path is feasible
			ex.safeObl(st, ins, "nil", tFalse, "field access through a nil pointer is unreachable")
		}
		owner := x.X.Type().Underlying().(*types.Pointer).Elem()
		f := structOf(owner).Field(x.Field)
		var bt *Term
		bp := ex.ptrOf(base)
		switch bp.Kind {
		case PRef, PCell:
			bt = bp.Base
		case PField:
			bf := structOf(bp.Owner).Field(bp.Field)
			bt = ex.subRef(st, bp.Owner, bf.Name(), bp.Base)
		case PElem:
			fr.vals[x] = Val{Ty: x.Type(), T: Fresh("felem", SInt), P: &Ptr{Kind: PFieldOfElem, Sub: bp, Owner: owner, Field: x.Field}}
			return true
		case PGlobal:
			// struct-typed global: its value is an id; model the global as an object whose ref is the id
			gv := ex.load(st, base)
			bt = ex.asTerm(st, gv)
		default:
			bt = base.T
		}
		pv := Val{Ty: x.Type(), P: &Ptr{Kind: PField, Base: bt, Owner: owner, Field: x.Field}}
		if isStruct(f.Type()) {
			pv.T = ex.subRef(st, owner, f.Name(), bt)
		} else {
			pv.T = App("faddr."+typeName(owner)+"."+f.Name(), SInt, bt)
		}
		fr.vals[x] = pv
		return true
	case *ssa.Field:
		sv := ex.value(st, fr, x.X)
		if sv.Ty == nil || !isStruct(sv.Ty) {
			sv.Ty = x.X.Type()
		}
		fv := ex.structField(sv, x.Field)
		ex.loadedFacts(st, fv)
		fr.vals[x] = fv
		return true
	case *ssa.IndexAddr:
		base := ex.value(st, fr, x.X)
		idx := ex.value(st, fr, x.Index)
		switch bt := x.X.Type().Underlying().(type) {
		case *types.Slice:
			ex.safeObl(st, ins, "index", And(Le(Num(0), idx.T), Lt(idx.T, ex.slen(base.T))), fmt.Sprintf("0 <= %s < len", x.Index.Name()))
			fr.vals[x] = Val{Ty: x.Type(), T: Fresh("eaddr", SInt), P: &Ptr{Kind: PElem, Arr: ex.sarr(base.T), Idx: Add(ex.soff(base.T), idx.T), Elem: bt.Elem()}}
		case *types.Pointer:
			arr := bt.Elem().Underlying().(*types.Array)
			ex.safeObl(st, ins, "index", And(Le(Num(0), idx.T), Lt(idx.T, Num(arr.Len()))), "array index in range")
			var at *Term
			bp := ex.ptrOf(base)
			switch bp.Kind {
			case PField:
				at = App("faddr."+typeName(bp.Owner)+"."+structOf(bp.Owner).Field(bp.Field).Name(), SInt, bp.Base)
			default:
				at = base.T
			}
			fr.vals[x] = Val{Ty: x.Type(), T: Fresh("eaddr", SInt), P: &Ptr{Kind: PElem, Arr: at, Idx: idx.T, Elem: arr.Elem()}}
		default:
			ex.errf("%s: IndexAddr on %s", ex.unitKey, x.X.Type())
			fr.vals[x] = ex.freshOfType(st, "eaddr", x.Type())
		}
		return true
	case *ssa.Index:
		// string or array value indexing
		base := ex.value(st, fr, x.X)
		idx := ex.value(st, fr, x.Index)
		if isString(x.X.Type()) {
			ex.safeObl(st, ins, "index", And(Le(Num(0), idx.T), Lt(idx.T, strLen(base.T))), "string index in range")
			fr.vals[x] = ex.strByte(st, base.T, idx.T)
			return true
		}
		fr.vals[x] = ex.freshOfType(st, "idx", x.Type())
		return true
	case *ssa.UnOp:
		return ex.execUnOp(st, fr, x)
	case *ssa.BinOp:
		a, b := ex.value(st, fr, x.X), ex.value(st, fr, x.Y)
		fr.vals[x] = ex.binop(st, ins, x.Op, a, b, x.X.Type(), x.Type())
		return true
	case *ssa.Store:
		ex.store(st, ex.value(st, fr, x.Addr), ex.value(st, fr, x.Val))
		return true
	case *ssa.Phi:
		// handled on block entry
		return true
	case *ssa.Convert:
		fr.vals[x] = ex.convert(st, ex.value(st, fr, x.X), x.X.Type(), x.Type())
		return true
	case *ssa.ChangeType:
		v := ex.value(st, fr, x.X)
		v.Ty = x.Type()
		fr.vals[x] = v
		return true
	case *ssa.ChangeInterface:
		v := ex.value(st, fr, x.X)
		v.Ty = x.Type()
		fr.vals[x] = v
		return true
	case *ssa.MakeInterface:
		v := ex.value(st, fr, x.X)
		if v.Ty == nil || !types.Identical(v.Ty, x.X.Type()) {
			v.Ty = x.X.Type()
		}
		fr.vals[x] = ex.mkIface(st, v, x.Type())
		return true
	case *ssa.TypeAssert:
		return ex.execTypeAssert(st, fr, x)
	case *ssa.Extract:
		t := ex.value(st, fr, x.Tuple)
		if x.Index < len(t.Fs) {
			fr.vals[x] = t.Fs[x.Index]
		} else {
			fr.vals[x] = ex.freshOfType(st, "extract", x.Type())
		}
		return true
	case *ssa.MakeClosure:
		fn := x.Fn.(*ssa.Function)
		fv := &FnVal{Fn: fn}
		for _, b := range x.Bindings {
			fv.Bind = append(fv.Bind, ex.value(st, fr, b))
		}
		freshCtr++
		id := UniqueSym(fmt.Sprintf("clo!%s!%d", sanitize(fn.Name()), freshCtr))
		fv.Id = id
		ex.cloInfo[id.Name] = fv
		fr.vals[x] = Val{T: id, Ty: x.Type(), Fn: fv}
		return true
	case *ssa.MakeSlice:
		ln, cp := ex.value(st, fr, x.Len), ex.value(st, fr, x.Cap)
		ex.safeObl(st, ins, "make", And(Le(Num(0), ln.T), Le(ln.T, cp.T)), "0 <= len <= cap")
		arr := st.newRef("array")
		elem := x.Type().Underlying().(*types.Slice).Elem()
		// zero-initialised: element array is a constant array; expressed lazily through a quantifier-free fact on demand
		srt := sortOf(elem)
		name := elemNameT(elem)
		e := st.heapGet(name, arrayOf(arrayOf(srt)))
		st.heapSet(name, Store(e, arr, ex.zeroArray(st, elem)))
		fr.vals[x] = ex.mkSlice(st, arr, Num(0), ln.T, cp.T, x.Type())
		return true
	case *ssa.MakeMap:
		ref := st.newRef("map")
		// empty domain
		dom := st.heapGet("M.dom", SAAIB)
		st.heapSet("M.dom", Store(dom, ref, Sym("emptydom", SAIB)))
		if !st.seenFact("emptydom") {
			freshCtr++
			k := Sym(fmt.Sprintf("k!b%d", freshCtr), SInt)
			st.assume(Forall([]*Term{k}, Not(Select(Sym("emptydom", SAIB), k))))
		}
		fr.vals[x] = Val{T: ref, Ty: x.Type()}
		return true
	case *ssa.MakeChan:
		ref := st.newRef("chan")
		st.events = append(st.events, &Event{Kind: "make", Chan: ref, Pos: ex.pos(ins)})
		st.assume(Eq(App("chancap", SInt, ref), ex.value(st, fr, x.Size).T))
		fr.vals[x] = Val{T: ref, Ty: x.Type()}
		return true
	case *ssa.Slice:
		return ex.execSlice(st, fr, x)
	case *ssa.Lookup:
		return ex.execLookup(st, fr, x)
	case *ssa.MapUpdate:
		m := ex.value(st, fr, x.Map)
		k := ex.value(st, fr, x.Key)
		v := ex.value(st, fr, x.Value)
		dom := st.heapGet("M.dom", SAAIB)
		st.heapSet("M.dom", Store(dom, m.T, Store(Select(dom, m.T), ex.asTerm(st, k), tTrue)))
		srt := sortOf(x.Value.Type())
		name := "M.val." + string(srt)
		mv := st.heapGet(name, arrayOf(arrayOf(srt)))
		st.heapSet(name, Store(mv, m.T, Store(Select(mv, m.T), ex.asTerm(st, k), ex.asTerm(st, v))))
		return true
	case *ssa.Range, *ssa.Next:
		ex.errf("%s: range over map/string is outside the modelled subset (%s)", ex.unitKey, ex.pos(ins))
		if v, ok := ins.(ssa.Value); ok {
			fr.vals[v] = ex.freshOfType(st, "range", v.Type())
		}
		return true
	case *ssa.Send:
		ch := ex.value(st, fr, x.Chan)
		v := ex.value(st, fr, x.X)
		st.events = append(st.events, &Event{Kind: "send", Chan: ch.T, Val: v, Pos: ex.pos(ins)})
		return true
	case *ssa.Select:
		return ex.execSelect(st, fr, x)
	case *ssa.Go:
		return ex.execGo(st, fr, x)
	case *ssa.Defer:
		d := deferRec{call: &x.Call, instr: x}
		for _, a := range x.Call.Args {
			d.args = append(d.args, ex.value(st, fr, a))
		}
		d.fn = ex.value(st, fr, x.Call.Value)
		fr.defers = append(fr.defers, d)
		return true
	case *ssa.RunDefers:
		return ex.execRunDefers(st, fr)
	case *ssa.Call:
		return ex.execCall(st, fr, x, &x.Call, x)
	case *ssa.Panic:
		// a reachable explicit panic: safety obligation "unreachable"
		ex.safeObl(st, ins, "panic", tFalse, "explicit panic unreachable")
		return false
	case *ssa.Jump:
		return ex.enterBlock(st, fr, fr.blk.Succs[0])
	case *ssa.If:
		c := ex.value(st, fr, x.Cond).T
		tb, fb := fr.blk.Succs[0], fr.blk.Succs[1]
		if c.IsTrue() {
			return ex.enterBlock(st, fr, tb)
		}
		if c.IsFalse() {
			return ex.enterBlock(st, fr, fb)
		}
		other := ex.fork(st, "f")
		of := other.top()
		other.assume(Not(c))
		if ex.enterBlock(other, of, fb) {
			ex.work = append(ex.work, other)
		}
		st.path = append(st.path, "t")
		st.assume(c)
		return ex.enterBlock(st, fr, tb)
	case *ssa.Return:
		return ex.execReturn(st, fr, x)
	case *ssa.SliceToArrayPointer, *ssa.MultiConvert:
		if v, ok := ins.(ssa.Value); ok {
			fr.vals[v] = ex.freshOfType(st, "unmodelled", v.Type())
		}
		ex.note("unmodelled instruction %T in %s", ins, fr.fn)
		return true
	}
	ex.errf("%s: unsupported instruction %T at %s", ex.unitKey, ins, ex.pos(ins))
	if v, ok := ins.(ssa.Value); ok {
		fr.vals[v] = ex.freshOfType(st, "unsupported", v.Type())
	}
	return true
}

func (ex *Executor) safeObl(st *State, ins ssa.Instruction, kind string, goal *Term, text string) {
	if !ex.safety {
		return
	}
	fr := st.top()
	if !fr.unit && fr.spec == nil && false {
		return
	}
	ex.addObl(st, "safe", kind+" "+ex.pos(ins), goal, text+" at "+ex.pos(ins), nil)
}

func (ex *Executor) strByte(st *State, s, i *Term) Val {
	if lit, ok := litOf(s); ok && i.IsNum() && i.Num.IsInt64() && int(i.Num.Int64()) < len(lit) && i.Num.Sign() >= 0 {
		return Val{T: Num(int64(lit[i.Num.Int64()])), Ty: types.Typ[types.Uint8]}
	}
	t := App("strbyte", SInt, s, i)
	st.assume(And(Le(Num(0), t), Le(t, Num(255))))
	return Val{T: t, Ty: types.Typ[types.Uint8]}
}

func (ex *Executor) execUnOp(st *State, fr *Frame, x *ssa.UnOp) bool {
	v := ex.value(st, fr, x.X)
	switch x.Op {
	case token.MUL:
		r := ex.load(st, v)
		if r.Ty == nil {
			r.Ty = x.Type()
		}
		fr.vals[x] = r
	case token.NOT:
		fr.vals[x] = Val{T: Not(v.T), Ty: x.Type()}
	case token.SUB:
		fr.vals[x] = Val{T: wrapTo(Sub(Num(0), v.T), x.Type()), Ty: x.Type()}
	case token.XOR:
		fr.vals[x] = ex.freshOfType(st, "bitnot", x.Type())
	case token.ARROW:
		// receive
		nv := ex.freshOfType(st, "recv", x.X.Type().Underlying().(*types.Chan).Elem())
		ok := Fresh("recvok", SBool)
		ev := &Event{Kind: "recv", Chan: v.T, Val: nv, OK: ok, Pos: ex.pos(x)}
		if v.T.Op == "app" && v.T.Name == "ctxdone" {
			ev.Kind = "ctxdone"
			ev.Guarded = true
			st.cancelled = true
		}
		st.events = append(st.events, ev)
		if x.CommaOk {
			fr.vals[x] = Val{IsTuple: true, Fs: []Val{nv, {T: ok, Ty: types.Typ[types.Bool]}}, Ty: x.Type()}
		} else {
			fr.vals[x] = nv
		}
	default:
		ex.errf("%s: unsupported unary op %s", ex.unitKey, x.Op)
		fr.vals[x] = ex.freshOfType(st, "unop", x.Type())
	}
	return true
}

func bitsOf(ty types.Type) int {
	lo, hi, ok := typeRange(ty)
	if !ok {
		return 64
	}
	n := new(big.Int).Sub(hi, lo)
	return n.BitLen()
}

// emptyStringTest: for a comparison of a string with the literal "", the equivalent length test (nil otherwise)
func emptyStringTest(a, b *Term) *Term {
	if a == nil || b == nil {
		return nil
	}
	if l, ok := litOf(b); ok && l == "" {
		if la, oka := litOf(a); oka {
			return Bool(la == "")
		}
		return Eq(strLen(a), Num(0))
	}
	if l, ok := litOf(a); ok && l == "" {
		return Eq(strLen(b), Num(0))
	}
	return nil
}

func (ex *Executor) binop(st *State, ins ssa.Instruction, op token.Token, a, b Val, opTy, resTy types.Type) Val {
	res := func(t *Term) Val { return Val{T: t, Ty: resTy} }
	switch op {
	case token.EQL, token.NEQ:
		var eq *Term
		if e := emptyStringTest(a.T, b.T); e != nil {
			eq = e // s == "" is the same test as len(s) == 0
		} else if a.T != nil && b.T != nil && a.T.S == b.T.S {
			eq = Eq(a.T, b.T)
		} else if a.Fs != nil || b.Fs != nil {
			eq = Fresh("structeq", SBool)
		} else {
			eq = Fresh("eq", SBool)
		}
		if op == token.NEQ {
			eq = Not(eq)
		}
		return res(eq)
	case token.LSS:
		return res(ex.cmpVals(st, "<", a, b, opTy))
	case token.LEQ:
		return res(ex.cmpVals(st, "<=", a, b, opTy))
	case token.GTR:
		return res(ex.cmpVals(st, ">", a, b, opTy))
	case token.GEQ:
		return res(ex.cmpVals(st, ">=", a, b, opTy))
	}
	if isString(opTy) && op == token.ADD {
		t := StrCat(a.T, b.T)
		return res(t)
	}
	if !isInteger(opTy) {
		// floats etc.
		return ex.freshOfType(st, "arith", resTy)
	}
	switch op {
	case token.ADD:
		return res(ex.arithWrap(st, ins, Add(a.T, b.T), resTy))
	case token.SUB:
		return res(ex.arithWrap(st, ins, Sub(a.T, b.T), resTy))
	case token.MUL:
		return res(ex.arithWrap(st, ins, Mul(a.T, b.T), resTy))
	case token.QUO:
		ex.safeObl(st, ins, "div", Neq(b.T, Num(0)), "division by zero")
		if isUnsigned(opTy) {
			return res(Div(a.T, b.T))
		}
		// truncated division
		q := Ite(Ge(a.T, Num(0)), Div(a.T, b.T), Sub(Num(0), Div(Sub(Num(0), a.T), b.T)))
		return res(q)
	case token.REM:
		ex.safeObl(st, ins, "div", Neq(b.T, Num(0)), "division by zero")
		if isUnsigned(opTy) {
			return res(Mod(a.T, b.T))
		}
		r := Ite(Ge(a.T, Num(0)), Mod(a.T, b.T), Sub(Num(0), Mod(Sub(Num(0), a.T), b.T)))
		return res(r)
	case token.SHL:
		if b.T.IsNum() && b.T.Num.IsInt64() && b.T.Num.Int64() < 256 {
			return res(ex.arithWrap(st, ins, Mul(a.T, NumB(pow2(uint(b.T.Num.Int64())))), resTy))
		}
		p := ex.pow2Term(st, b.T)
		return res(ex.arithWrap(st, ins, Mul(a.T, p), resTy))
	case token.SHR:
		if b.T.IsNum() && b.T.Num.IsInt64() && b.T.Num.Int64() < 256 && isUnsigned(opTy) {
			return res(Div(a.T, NumB(pow2(uint(b.T.Num.Int64())))))
		}
		return ex.freshOfType(st, "shr", resTy)
	case token.AND, token.OR, token.XOR, token.AND_NOT:
		return res(ex.bitop(st, op, a.T, b.T, resTy))
	}
	ex.errf("%s: unsupported binary op %s", ex.unitKey, op)
	return ex.freshOfType(st, "binop", resTy)
}

func (ex *Executor) cmpVals(st *State, op string, a, b Val, opTy types.Type) *Term {
	if isString(opTy) || !isInteger(opTy) {
		return Fresh("cmp", SBool)
	}
	return cmp(op, a.T, b.T)
}

// signed arithmetic: mathematical, with a no-overflow obligation when the function asks for it
// (opt overflow); unsigned arithmetic wraps.
func (ex *Executor) arithWrap(st *State, ins ssa.Instruction, t *Term, ty types.Type) *Term {
	if isUnsigned(ty) {
		return wrapTo(t, ty)
	}
	if ex.unitSpec != nil && ex.unitSpec.Opts["overflow"] == "check" {
		lo, hi, ok := typeRange(ty)
		if ok && !t.IsNum() {
			ex.safeObl(st, ins, "overflow", And(Le(NumB(lo), t), Le(t, NumB(hi))), "signed arithmetic does not overflow")
		}
	}
	return t
}

func (ex *Executor) pow2Term(st *State, k *Term) *Term {
	p := App("pow2", SInt, k)
	// ground table for 0..64 as guarded facts
	var fs []*Term
	for i := int64(0); i <= 64; i++ {
		fs = append(fs, Implies(Eq(k, Num(i)), Eq(p, NumB(pow2(uint(i))))))
	}
	st.assume(And(fs...))
	st.assume(Gt(p, Num(0)))
	return p
}

// zeroArray: the content of a freshly allocated array of elem: the constant array of elem's zero value.
func (ex *Executor) zeroArray(st *State, elem types.Type) *Term {
	switch {
	case isStruct(elem):
		k := "zerostruct:" + typeName(elem)
		if st.zeroStructs == nil {
			st.zeroStructs = map[string]*Term{}
		}
		z, ok := st.zeroStructs[k]
		if !ok {
			z = ex.asTerm(st, ex.zeroStruct(elem))
			st.zeroStructs[k] = z
		}
		return ConstArr(z)
	case isString(elem):
		return ConstArr(strLit(""))
	case sortOf(elem) == SBool:
		return ConstArr(tFalse)
	}
	return ConstArr(Num(0))
}

// bitwise ops: with one constant operand they are decomposed per bit; otherwise uninterpreted.
func (ex *Executor) bitop(st *State, op token.Token, a, b *Term, ty types.Type) *Term {
	if a.IsNum() && b.IsNum() {
		r := new(big.Int)
		switch op {
		case token.AND:
			r.And(a.Num, b.Num)
		case token.OR:
			r.Or(a.Num, b.Num)
		case token.XOR:
			r.Xor(a.Num, b.Num)
		case token.AND_NOT:
			r.AndNot(a.Num, b.Num)
		}
		return NumB(r)
	}
	if a.IsNum() && !b.IsNum() && op != token.AND_NOT {
		a, b = b, a
	}
	w := bitsOf(ty)
	if b.IsNum() && b.Num.Sign() >= 0 && w <= 16 && isUnsigned(ty) {
		// x op c  =  sum over bits
		bit := func(x *Term, k int) *Term { return Mod(Div(x, NumB(pow2(uint(k)))), Num(2)) }
		out := Num(0)
		for k := 0; k < w; k++ {
			ck := b.Num.Bit(k)
			var bk *Term
			switch op {
			case token.AND:
				if ck == 1 {
					bk = bit(a, k)
				} else {
					bk = Num(0)
				}
			case token.OR:
				if ck == 1 {
					bk = Num(1)
				} else {
					bk = bit(a, k)
				}
			case token.XOR:
				if ck == 1 {
					bk = Sub(Num(1), bit(a, k))
				} else {
					bk = bit(a, k)
				}
			case token.AND_NOT:
				if ck == 1 {
					bk = Num(0)
				} else {
					bk = bit(a, k)
				}
			}
			out = Add(out, Mul(bk, NumB(pow2(uint(k)))))
		}
		return out
	}
	t := App("bit"+op.String(), SInt, a, b)
	_ = st
	return App(sanitize("bitop_"+map[token.Token]string{token.AND: "and", token.OR: "or", token.XOR: "xor", token.AND_NOT: "andnot"}[op]), SInt, t.Args...)
}

func (ex *Executor) convert(st *State, v Val, from, to types.Type) Val {
	switch {
	case isInteger(from) && isInteger(to):
		// widening conversions are exact: a value of the source type always fits
		if flo, fhi, ok1 := typeRange(from); ok1 {
			if tlo, thi, ok2 := typeRange(to); ok2 && flo.Cmp(tlo) >= 0 && fhi.Cmp(thi) <= 0 {
				return Val{T: v.T, Ty: to}
			}
		}
		return Val{T: wrapTo(v.T, to), Ty: to}
	case isString(to) && !isString(from):
		if isInteger(from) {
			return Val{T: App("rune2str", SInt, v.T), Ty: to}
		}
		t := App("bytes2str", SInt, ex.sliceContent(st, v.T))
		st.assume(Eq(strLen(t), ex.slen(v.T)))
		return Val{T: t, Ty: to}
	case isString(from) && !isString(to):
		// []byte(s): fresh slice whose content is a function of the string
		arr := st.newRef("bytes")
		ln := strLen(v.T)
		r := ex.mkSlice(st, arr, Num(0), ln, ln, to)
		name := byteElems
		e := st.heapGet(name, SAAII)
		st.heapSet(name, Store(e, arr, App("str2bytes", SAII, v.T)))
		return r
	}
	nv := v
	nv.Ty = to
	if nv.T == nil {
		return nv
	}
	if _, ok := to.Underlying().(*types.Basic); ok && !isInteger(to) && !isString(to) && sortOf(to) == SInt && isInteger(from) {
		// int -> float etc.
		return Val{T: App("tofloat", SInt, v.T), Ty: to}
	}
	return nv
}

// the content array of a slice as a term (for uninterpreted conversions)
func (ex *Executor) sliceContent(st *State, id *Term) *Term {
	e := st.heapGet(byteElems, SAAII)
	return App("slicecontent", SInt, Select(e, ex.sarr(id)), ex.soff(id), ex.slen(id))
}

func (ex *Executor) execTypeAssert(st *State, fr *Frame, x *ssa.TypeAssert) bool {
	v := ex.value(st, fr, x.X)
	tag := ex.ifaceTag(v.T)
	var ok *Term
	var res Val
	if types.IsInterface(x.AssertedType) {
		ok = And(Neq(v.T, Num(0)), App("implements."+typeName(x.AssertedType), SBool, tag))
		if info, k := ex.ifaceInfo[v.T.Key()]; k {
			// statically known dynamic type
			ok = Bool(types.Implements(info.ty, x.AssertedType.Underlying().(*types.Interface)))
		}
		res = Val{T: v.T, Ty: x.AssertedType}
	} else {
		ok = And(Neq(v.T, Num(0)), Eq(tag, typeTag(x.AssertedType)))
		res = ex.ifacePayload(st, v.T, x.AssertedType)
		res.Ty = x.AssertedType
	}
	if x.CommaOk {
		zero := ex.zeroVal(x.AssertedType)
		if res.T != nil && zero.T != nil && res.T.S == zero.T.S {
			res.T = Ite(ok, res.T, zero.T)
		}
		fr.vals[x] = Val{IsTuple: true, Fs: []Val{res, {T: ok, Ty: types.Typ[types.Bool]}}, Ty: x.Type()}
		return true
	}
	ex.safeObl(st, x, "typeassert", ok, "type assertion cannot fail")
	st.assume(ok)
	fr.vals[x] = res
	return true
}

func (ex *Executor) execSlice(st *State, fr *Frame, x *ssa.Slice) bool {
	base := ex.value(st, fr, x.X)
	var lo, hi, mx *Term
	if x.Low != nil {
		lo = ex.value(st, fr, x.Low).T
	} else {
		lo = Num(0)
	}
	switch bt := x.X.Type().Underlying().(type) {
	case *types.Basic: // string
		if x.High != nil {
			hi = ex.value(st, fr, x.High).T
		} else {
			hi = strLen(base.T)
		}
		ex.safeObl(st, x, "slice", And(Le(Num(0), lo), Le(lo, hi), Le(hi, strLen(base.T))), "string slice bounds")
		if lit, ok := litOf(base.T); ok && lo.IsNum() && hi.IsNum() && lo.Num.IsInt64() && hi.Num.IsInt64() &&
			0 <= lo.Num.Int64() && lo.Num.Int64() <= hi.Num.Int64() && hi.Num.Int64() <= int64(len(lit)) {
			// constant slice of a literal is a literal
			fr.vals[x] = Val{T: strLit(lit[lo.Num.Int64():hi.Num.Int64()]), Ty: x.Type()}
			return true
		}
		t := App("substr", SInt, base.T, lo, hi)
		st.assume(Eq(strLen(t), Sub(hi, lo)))
		fr.vals[x] = Val{T: t, Ty: x.Type()}
	case *types.Slice:
		if x.High != nil {
			hi = ex.value(st, fr, x.High).T
		} else {
			hi = ex.slen(base.T)
		}
		if x.Max != nil {
			mx = ex.value(st, fr, x.Max).T
		} else {
			mx = ex.scap(base.T)
		}
		// Go checks the high bound against the capacity, not the length
		ex.safeObl(st, x, "slice", And(Le(Num(0), lo), Le(lo, hi), Le(hi, mx), Le(mx, ex.scap(base.T))), "slice bounds (high bound is checked against cap)")
		fr.vals[x] = ex.mkSlice(st, ex.sarr(base.T), Add(ex.soff(base.T), lo), Sub(hi, lo), Sub(mx, lo), x.Type())
	case *types.Pointer: // pointer to array
		arr := bt.Elem().Underlying().(*types.Array)
		if x.High != nil {
			hi = ex.value(st, fr, x.High).T
		} else {
			hi = Num(arr.Len())
		}
		ex.safeObl(st, x, "slice", And(Le(Num(0), lo), Le(lo, hi), Le(hi, Num(arr.Len()))), "array slice bounds")
		var at *Term
		bp := ex.ptrOf(base)
		if bp.Kind == PField {
			at = App("faddr."+typeName(bp.Owner)+"."+structOf(bp.Owner).Field(bp.Field).Name(), SInt, bp.Base)
		} else {
			at = base.T
		}
		fr.vals[x] = ex.mkSlice(st, at, lo, Sub(hi, lo), Sub(Num(arr.Len()), lo), x.Type())
	default:
		fr.vals[x] = ex.freshOfType(st, "slice", x.Type())
	}
	return true
}

func (ex *Executor) execLookup(st *State, fr *Frame, x *ssa.Lookup) bool {
	m := ex.value(st, fr, x.X)
	k := ex.value(st, fr, x.Index)
	if isString(x.X.Type()) {
		fr.vals[x] = ex.strByte(st, m.T, k.T)
		return true
	}
	mt := x.X.Type().Underlying().(*types.Map)
	srt := sortOf(mt.Elem())
	kt := ex.asTerm(st, k)
	in := Select(Select(st.heapGet("M.dom", SAAIB), m.T), kt)
	val := Select(Select(st.heapGet("M.val."+string(srt), arrayOf(arrayOf(srt))), m.T), kt)
	zero := ex.zeroVal(mt.Elem())
	var rv Val
	if zero.T != nil && zero.T.S == val.S {
		rv = Val{T: Ite(in, val, zero.T), Ty: mt.Elem()}
	} else {
		rv = Val{T: val, Ty: mt.Elem()}
	}
	ex.loadedFacts(st, Val{T: val, Ty: mt.Elem()})
	rv = ex.recover(rv)
	if ex.observed("maplookup") && fr.depth <= ex.observeDepth() {
		// a contract may observe map lookups (e.g. in a package-level table): event "call maplookup(map, key) as (value, present)"
		st.events = append(st.events, &Event{Kind: "call", Fn: "maplookup", Args: []Val{m, k}, Res: []Val{rv, {T: in, Ty: types.Typ[types.Bool]}}, Pos: ex.pos(x)})
	}
	if x.CommaOk {
		fr.vals[x] = Val{IsTuple: true, Fs: []Val{rv, {T: in, Ty: types.Typ[types.Bool]}}, Ty: x.Type()}
	} else {
		fr.vals[x] = rv
	}
	return true
}

func (ex *Executor) execSelect(st *State, fr *Frame, x *ssa.Select) bool {
	// does one of the cases wait on ctx.Done()?
	guarded := false
	chans := make([]Val, len(x.States))
	for i, s := range x.States {
		chans[i] = ex.value(st, fr, s.Chan)
		if t := chans[i].T; t != nil && t.Op == "app" && t.Name == "ctxdone" {
			guarded = true
		}
	}
	mk := func(s *State, idx int) {
		f := s.top()
		// tuple: (index int, recvOk bool, r_0 T_0, ...)
		tup := Val{IsTuple: true, Ty: x.Type()}
		tup.Fs = append(tup.Fs, Val{T: Num(int64(idx)), Ty: types.Typ[types.Int]})
		okT := Fresh("recvok", SBool)
		tup.Fs = append(tup.Fs, Val{T: okT, Ty: types.Typ[types.Bool]})
		for i, sc := range x.States {
			if sc.Dir != types.RecvOnly {
				continue
			}
			rv := ex.freshOfType(s, "recv", sc.Chan.Type().Underlying().(*types.Chan).Elem())
			tup.Fs = append(tup.Fs, rv)
			if i == idx {
				ev := &Event{Kind: "recv", Chan: chans[i].T, Val: rv, OK: okT, Guarded: guarded, InSelect: true, Pos: ex.pos(x)}
				if t := chans[i].T; t.Op == "app" && t.Name == "ctxdone" {
					ev.Kind = "ctxdone"
					s.cancelled = true
				}
				s.events = append(s.events, ev)
			}
		}
		if idx >= 0 && x.States[idx].Dir == types.SendOnly {
			sv := ex.value(s, f, x.States[idx].Send)
			s.events = append(s.events, &Event{Kind: "send", Chan: chans[idx].T, Val: sv, Guarded: guarded, InSelect: true, Pos: ex.pos(x)})
		}
		if idx < 0 {
			s.events = append(s.events, &Event{Kind: "default", Pos: ex.pos(x)})
		}
		f.vals[x] = tup
	}
	n := len(x.States)
	var alts []int
	for i := 0; i < n; i++ {
		alts = append(alts, i)
	}
	if !x.Blocking {
		alts = append(alts, -1)
	}
	for _, a := range alts[1:] {
		o := ex.fork(st, fmt.Sprintf("s%d", a))
		mk(o, a)
		ex.work = append(ex.work, o)
	}
	st.path = append(st.path, fmt.Sprintf("s%d", alts[0]))
	mk(st, alts[0])
	return true
}

func (ex *Executor) execGo(st *State, fr *Frame, x *ssa.Go) bool {
	ev := &Event{Kind: "go", Pos: ex.pos(x)}
	fv := ex.value(st, fr, x.Call.Value)
	if x.Call.IsInvoke() {
		ev.Fn = x.Call.Method.Name()
		ev.Args = append(ev.Args, fv)
	} else if sc := x.Call.StaticCallee(); sc != nil {
		ev.Fn = funcKeyOrName(sc)
		if fv.Fn != nil {
			ev.Args = append(ev.Args, ex.capturedVals(st, fv.Fn.Bind)...)
			for _, v := range sc.FreeVars {
				ev.ArgNames = append(ev.ArgNames, v.Name())
			}
		}
	} else if fv.Fn != nil {
		ev.Fn = funcKeyOrName(fv.Fn.Fn)
		ev.Args = append(ev.Args, ex.capturedVals(st, fv.Fn.Bind)...)
		for _, v := range fv.Fn.Fn.FreeVars {
			ev.ArgNames = append(ev.ArgNames, v.Name())
		}
	} else {
		ev.Fn = "?"
	}
	// the goroutine's parameters can be named in a pattern like its captured variables (a variable the function
	// literal used to capture may be handed over as an argument instead)
	var goFn *ssa.Function
	if sc := x.Call.StaticCallee(); sc != nil {
		goFn = sc
	} else if fv.Fn != nil {
		goFn = fv.Fn.Fn
	}
	for len(ev.ArgNames) < len(ev.Args) {
		ev.ArgNames = append(ev.ArgNames, "")
	}
	for i, a := range x.Call.Args {
		ev.Args = append(ev.Args, ex.value(st, fr, a))
		nm := ""
		if goFn != nil && !x.Call.IsInvoke() && len(goFn.Params) == len(x.Call.Args) {
			nm = goFn.Params[i].Name()
		}
		ev.ArgNames = append(ev.ArgNames, nm)
	}
	st.events = append(st.events, ev)
	ex.forkRule(st, fr, x, fv)
	return true
}

// forkRule: a spawned function starts in the state the spawner is in at the go statement, so its precondition
// is an obligation of the spawner (captured variables are read at the spawn).
func (ex *Executor) forkRule(st *State, fr *Frame, x *ssa.Go, fv Val) {
	var fn *ssa.Function
	var binds []Val
	if sc := x.Call.StaticCallee(); sc != nil {
		fn = sc
	}
	if fv.Fn != nil {
		fn = fv.Fn.Fn
		binds = fv.Fn.Bind
	}
	if fn == nil {
		return
	}
	spec := ex.S.Funcs[funcKey(fn)]
	if spec == nil || len(spec.Requires) == 0 {
		return
	}
	env := &SpecEnv{ex: ex, st: st, vars: map[string]Val{}, pkgRel: spec.Pkg}
	for i, v := range fn.FreeVars {
		if i < len(binds) {
			b := binds[i]
			if b.Ty == nil {
				b.Ty = v.Type()
			}
			env.vars[v.Name()] = ex.load(st, b)
		}
	}
	for i, p := range fn.Params {
		if i < len(x.Call.Args) {
			env.vars[p.Name()] = ex.value(st, fr, x.Call.Args[i])
		}
	}
	for i, c := range spec.Requires {
		v, err := ex.evalSpec(c.Expr, env)
		if err != nil {
			ex.errf("%s: requires of spawned %s %q: %v", ex.unitKey, spec.Key, c.Text, err)
			return
		}
		ex.addObl(st, "pre", fmt.Sprintf("go %s: %s", spec.Key, clauseLabel(c, i)), v.T, "precondition of the spawned goroutine "+spec.Key+": "+c.Text, c.Tags)
	}
}

// capturedVals: go/ssa captures variables by address; in a `go` event the binding is shown as the value the
// captured variable holds at the spawn (scalar cells only; other bindings stay pointers).
func (ex *Executor) capturedVals(st *State, binds []Val) []Val {
	var out []Val
	for _, b := range binds {
		if b.Ty != nil && b.T != nil {
			if _, isPtr := b.Ty.Underlying().(*types.Pointer); isPtr {
				if p := ex.ptrOf(b); p.Kind == PCell && !isStruct(p.Elem) && !isBigIntPtr(types.NewPointer(p.Elem)) {
					if _, isArr := p.Elem.Underlying().(*types.Array); !isArr {
						out = append(out, ex.load(st, b))
						continue
					}
				}
			}
		}
		out = append(out, b)
	}
	return out
}

func isFreeVarName(fn *ssa.Function, name string) bool {
	for _, v := range fn.FreeVars {
		if v.Name() == name {
			return true
		}
	}
	return false
}

func funcKeyOrName(fn *ssa.Function) string {
	if k := funcKey(fn); k != "" {
		return k
	}
	return fn.String()
}

func (ex *Executor) execRunDefers(st *State, fr *Frame) bool {
	if len(fr.defers) == 0 {
		return true
	}
	d := fr.defers[len(fr.defers)-1]
	fr.defers = fr.defers[:len(fr.defers)-1]
	// re-execute this RunDefers instruction after the deferred call returns
	fr.idx--
	return ex.dispatchCall(st, fr, d.call, d.fn, d.args, nil, d.instr, true)
}

func (ex *Executor) execReturn(st *State, fr *Frame, x *ssa.Return) bool {
	var res []Val
	for _, r := range x.Results {
		res = append(res, ex.value(st, fr, r))
	}
	return ex.doReturn(st, fr, res, x)
}

func (ex *Executor) doReturn(st *State, fr *Frame, res []Val, ins ssa.Instruction) bool {
	if fr.unit {
		ex.finishUnit(st, fr, res, ins)
		return false
	}
	// pop
	st.frames = st.frames[:len(st.frames)-1]
	caller := st.top()
	if fr.deferred {
		return true
	}
	if fr.afterReturn != nil {
		return fr.afterReturn(st, caller, res)
	}
	if cv, ok := fr.callInstr.(ssa.Value); ok {
		switch len(res) {
		case 0:
		case 1:
			caller.vals[cv] = res[0]
		default:
			caller.vals[cv] = Val{IsTuple: true, Fs: res, Ty: cv.Type()}
		}
	}
	ex.runAnchors(st, caller, "call", fr.anchorName, fr.anchorOrd, "after")
	return true
}

func (ex *Executor) finishUnit(st *State, fr *Frame, res []Val, ins ssa.Instruction) {
	spec := fr.spec
	ord := fr.retOrd
	if r, ok := ins.(*ssa.Return); ok {
		ord = returnOrdinal(r)
	}
	ex.runAnchors(st, fr, "return", "", ord, "after")
	first := len(ex.Obls)
	nev := len(ex.segmentEvents(st))
	exitHeap := copyHeap(st.heap)
	defer func() {
		for _, o := range ex.Obls[first:] {
			o.Rets, o.Heap, o.AtExit, o.NEvents = res, exitHeap, true, nev
		}
	}()
	env := ex.envFor(st, fr)
	env.bindResults(fr.fn, res)
	for i, c := range spec.Ensures {
		v, err := ex.evalSpec(c.Expr, env)
		if err != nil {
			if nm := unknownIdent(err.Error()); nm != "" && fr.fn.Parent() != nil && !ownSourceName(fr.fn, nm) && hasSourceName(fr.fn.Parent(), nm) {
				// the postcondition relates the function literal's effect to a variable of the enclosing function that
				// the literal no longer uses at all (it is not captured any more): it cannot establish that relation
				ex.addStructural(st, "post", clauseLabel(c, i), false, "ensures "+c.Text+": the function literal no longer uses "+nm+" of the enclosing function, which its postcondition speaks about", c.Tags)
				continue
			}
			ex.errf("%s: ensures %q: %v", ex.unitKey, c.Text, err)
			continue
		}
		ex.addObl(st, "post", clauseLabel(c, i), v.T, c.Text, c.Tags)
	}
	if spec.HasMod {
		ex.checkFrame(st, fr, fr.oldHeap, fr.oldAlloc, spec.Modifies, "func", fr.oldHeap)
	}
	st.resultsForRows = res
	ex.endSegment(st, fr, "exit")
	ex.checkCallReqs(st, fr, res)
}

// checkCallReqs: exit require clauses (see CallReq)
func (ex *Executor) checkCallReqs(st *State, fr *Frame, res []Val) {
	for _, cr := range fr.spec.CallReqs {
		env := ex.envFor(st, fr)
		env.bindResults(fr.fn, res)
		var matches []*Event
		for _, e := range st.events {
			if e.Kind == "call" && nameMatches(e.Fn, cr.Pat.Fn) && constArgsMatch(cr.Pat, e) {
				matches = append(matches, e)
			}
		}
		if cr.Forbid {
			cond, err := ex.evalSpec(cr.When, env)
			if err != nil {
				ex.errf("%s: exit forbid %s: %v", ex.unitKey, cr.Name, err)
				continue
			}
			if len(matches) > 0 {
				ex.addObl(st, "forbid", cr.Name, Not(cond.T), fmt.Sprintf("%s is called on this path, so the condition of `%s` must not hold here", cr.Pat.Fn, cr.Text), cr.Tags)
			}
			continue
		}
		cond, err := ex.evalSpec(cr.When, env)
		if err != nil {
			ex.errf("%s: exit require %s: %v", ex.unitKey, cr.Name, err)
			continue
		}
		if len(matches) != 1 {
			ex.addObl(st, "require", cr.Name, Not(cond.T), fmt.Sprintf("%s is called %d times on this path, so the condition of `%s` must not hold here", cr.Pat.Fn, len(matches), cr.Text), cr.Tags)
			continue
		}
		e := matches[0]
		var cs []*Term
		bad := false
		if cr.Pat.Args != nil && len(cr.Pat.Args) == len(e.Args) {
			for k, a := range cr.Pat.Args {
				if a.Kind == "ident" && a.Name == "_" {
					continue
				}
				if a.Kind == "ident" && strings.HasPrefix(a.Name, "bind_") {
					env.vars[strings.TrimPrefix(a.Name, "bind_")] = e.Args[k]
					continue
				}
				c := *env
				if e.Heap != nil {
					c.heapOverride = e.Heap
				}
				pv, err := ex.evalSpec(a, &c)
				if err != nil {
					ex.errf("%s: exit require %s: %v", ex.unitKey, cr.Name, err)
					bad = true
					break
				}
				cs = append(cs, Eq(ex.asTerm(st, pv), ex.asTerm(st, e.Args[k])))
			}
		} else if cr.Pat.Args != nil {
			ex.errf("%s: exit require %s: arity of %s", ex.unitKey, cr.Name, cr.Pat.Fn)
			continue
		}
		if bad {
			continue
		}
		for k, b := range cr.Pat.Bind {
			if k < len(e.Res) && b != "_" {
				env.vars[b] = e.Res[k]
			}
		}
		post, err := ex.evalSpec(cr.Then, env)
		if err != nil {
			ex.errf("%s: exit require %s: %v", ex.unitKey, cr.Name, err)
			continue
		}
		cs = append(cs, post.T)
		ex.addObl(st, "require", cr.Name, Implies(cond.T, And(cs...)), cr.Text, cr.Tags)
	}
}

func returnOrdinal(r *ssa.Return) int {
	n := 0
	for _, b := range r.Parent().Blocks {
		for _, i := range b.Instrs {
			if rr, ok := i.(*ssa.Return); ok {
				if rr == r {
					return n
				}
				n++
			}
		}
	}
	return -1
}

// checkFrame: every heap location not listed in modifies (and allocated before the snapshot) is unchanged.
func (ex *Executor) checkFrame(st *State, fr *Frame, old map[string]*Term, oldAlloc *Term, locs []*SExpr, what string, evalHeap map[string]*Term) {
	env := ex.envFor(st, fr)
	env.heapOverride = evalHeap // locations are evaluated in the pre-state
	type loc struct {
		idx *Term
	}
	byMap := map[string][]*Term{}
	for _, l := range locs {
		name, idx, _, err := ex.evalLoc(l, env)
		if err != nil {
			ex.errf("%s: modifies %s: %v", ex.unitKey, l, err)
			return
		}
		byMap[name] = append(byMap[name], idx)
	}
	for _, name := range st.heapNames() {
		cur := st.heap[name]
		o := heapGetIn(old, name, cur.S)
		if cur.Key() == o.Key() {
			continue
		}
		if deadNewField(name) {
			ex.note("field %s.%s is new (no contract can name it) and is never read by code of the repository: writes to it are outside the frame conditions", fieldByMap[name][0], fieldByMap[name][1])
			continue
		}
		// one skolem index
		r := Fresh("frame.r", SInt)
		hyp := []*Term{Le(r, oldAlloc)}
		for _, idx := range byMap[name] {
			hyp = append(hyp, Neq(r, idx))
		}
		goal := Implies(And(hyp...), Eq(Select(cur, r), Select(o, r)))
		ex.addObl(st, "frame", what+": "+name, goal, "only the listed locations of "+name+" are modified", nil)
	}
}

// used by finishUnit for rows that mention results
func (st *State) resultVals() []Val { return st.resultsForRows }

var _ = strings.TrimSpace

// constArgsMatch: numeric / string literal arguments of the pattern select the events they talk about
// (call WriteRune(_, 115) is about the calls that write 's')
func constArgsMatch(p *EvPat, e *Event) bool {
	if p.Args == nil || len(p.Args) != len(e.Args) {
		return true
	}
	for k, a := range p.Args {
		switch a.Kind {
		case "num":
			t := e.Args[k].T
			if t == nil || !t.IsNum() {
				return false
			}
			if t.Num.String() != a.Num {
				return false
			}
		case "str":
			t := e.Args[k].T
			if t == nil {
				return false
			}
			if lit, ok := litOf(t); !ok || lit != a.Name {
				return false
			}
		}
	}
	return true
}
