package main

// Parser for the contract language (//@ comment lines in /repo/**/contracts_verif.go and the
// assumed contracts in /verif/contracts/ext/*.sxc).

import (
	"fmt"
	"os"
	"strconv"
	"strings"
	"unicode"
)

// ---------- expressions ----------

type SExpr struct {
	Kind  string // ident num str bool nil unary binary call sel index forall exists
	Name  string // ident name / selector field / call fn name / operator
	Num   string
	Args  []*SExpr
	Bound []SParam
	Pos   string
}

type SParam struct {
	Name string
	Type string // Go type expression text (may be "" for int)
}

func (e *SExpr) String() string {
	switch e.Kind {
	case "ident":
		return e.Name
	case "num":
		return e.Num
	case "str":
		return strconv.Quote(e.Name)
	case "bool", "nil":
		return e.Name
	case "unary":
		return e.Name + e.Args[0].String()
	case "binary":
		return "(" + e.Args[0].String() + " " + e.Name + " " + e.Args[1].String() + ")"
	case "call":
		var as []string
		for _, a := range e.Args {
			as = append(as, a.String())
		}
		return e.Name + "(" + strings.Join(as, ", ") + ")"
	case "sel":
		return e.Args[0].String() + "." + e.Name
	case "index":
		return e.Args[0].String() + "[" + e.Args[1].String() + "]"
	case "forall", "exists":
		var bs []string
		for _, b := range e.Bound {
			bs = append(bs, b.Name+" "+b.Type)
		}
		return "(" + e.Kind + " " + strings.Join(bs, ", ") + " :: " + e.Args[0].String() + ")"
	}
	return "?"
}

type tok struct {
	k string // id num str op eof
	s string
}

type lexer struct {
	toks []tok
	i    int
	src  string
}

func lex(src string) (*lexer, error) {
	l := &lexer{src: src}
	rs := []rune(src)
	for i := 0; i < len(rs); {
		r := rs[i]
		switch {
		case unicode.IsSpace(r):
			i++
		case unicode.IsLetter(r) || r == '_':
			j := i
			for j < len(rs) && (unicode.IsLetter(rs[j]) || unicode.IsDigit(rs[j]) || rs[j] == '_' || rs[j] == '\'') {
				j++
			}
			l.toks = append(l.toks, tok{"id", string(rs[i:j])})
			i = j
		case unicode.IsDigit(r):
			j := i
			for j < len(rs) && (unicode.IsDigit(rs[j]) || rs[j] == 'x' || (rs[j] >= 'a' && rs[j] <= 'f') || (rs[j] >= 'A' && rs[j] <= 'F') || rs[j] == '_') {
				j++
			}
			l.toks = append(l.toks, tok{"num", strings.ReplaceAll(string(rs[i:j]), "_", "")})
			i = j
		case r == '"':
			j := i + 1
			for j < len(rs) && rs[j] != '"' {
				if rs[j] == '\\' {
					j++
				}
				j++
			}
			if j >= len(rs) {
				return nil, fmt.Errorf("unterminated string in %q", src)
			}
			s, err := strconv.Unquote(string(rs[i : j+1]))
			if err != nil {
				return nil, err
			}
			l.toks = append(l.toks, tok{"str", s})
			i = j + 1
		default:
			ops := []string{"<==>", "==>", "::", "==", "!=", "<=", ">=", "&&", "||", "<<", ":=",
				"(", ")", "[", "]", ",", ".", "+", "-", "*", "/", "%", "<", ">", "!", ";", ":", "#", "$", "=", "|", "?", "{", "}", "&"}
			matched := false
			for _, op := range ops {
				if strings.HasPrefix(string(rs[i:]), op) {
					l.toks = append(l.toks, tok{"op", op})
					i += len([]rune(op))
					matched = true
					break
				}
			}
			if !matched {
				return nil, fmt.Errorf("bad character %q in %q", r, src)
			}
		}
	}
	l.toks = append(l.toks, tok{"eof", ""})
	return l, nil
}

func (l *lexer) peek() tok { return l.toks[l.i] }
func (l *lexer) next() tok  { t := l.toks[l.i]; l.i++; return t }
func (l *lexer) isOp(s string) bool {
	t := l.peek()
	return t.k == "op" && t.s == s
}
func (l *lexer) accept(s string) bool {
	if l.isOp(s) {
		l.i++
		return true
	}
	return false
}
func (l *lexer) expect(s string) error {
	if !l.accept(s) {
		return fmt.Errorf("expected %q at token %d (%q) in %q", s, l.i, l.peek().s, l.src)
	}
	return nil
}

func ParseSpecExpr(src string) (*SExpr, error) {
	l, err := lex(src)
	if err != nil {
		return nil, err
	}
	e, err := l.parseIff()
	if err != nil {
		return nil, err
	}
	if l.peek().k != "eof" {
		return nil, fmt.Errorf("trailing input %q in %q", l.peek().s, src)
	}
	return e, nil
}

func (l *lexer) parseIff() (*SExpr, error) {
	a, err := l.parseImp()
	if err != nil {
		return nil, err
	}
	for l.accept("<==>") {
		b, err := l.parseImp()
		if err != nil {
			return nil, err
		}
		a = &SExpr{Kind: "binary", Name: "<==>", Args: []*SExpr{a, b}}
	}
	return a, nil
}

func (l *lexer) parseImp() (*SExpr, error) {
	a, err := l.parseOr()
	if err != nil {
		return nil, err
	}
	if l.accept("==>") {
		b, err := l.parseImp()
		if err != nil {
			return nil, err
		}
		return &SExpr{Kind: "binary", Name: "==>", Args: []*SExpr{a, b}}, nil
	}
	return a, nil
}

func (l *lexer) parseOr() (*SExpr, error) {
	a, err := l.parseAnd()
	if err != nil {
		return nil, err
	}
	for l.accept("||") {
		b, err := l.parseAnd()
		if err != nil {
			return nil, err
		}
		a = &SExpr{Kind: "binary", Name: "||", Args: []*SExpr{a, b}}
	}
	return a, nil
}

func (l *lexer) parseAnd() (*SExpr, error) {
	a, err := l.parseCmp()
	if err != nil {
		return nil, err
	}
	for l.accept("&&") {
		b, err := l.parseCmp()
		if err != nil {
			return nil, err
		}
		a = &SExpr{Kind: "binary", Name: "&&", Args: []*SExpr{a, b}}
	}
	return a, nil
}

func (l *lexer) parseCmp() (*SExpr, error) {
	a, err := l.parseAdd()
	if err != nil {
		return nil, err
	}
	// chained comparisons: a <= b < c
	var conj *SExpr
	for {
		t := l.peek()
		if t.k == "op" && (t.s == "==" || t.s == "!=" || t.s == "<" || t.s == "<=" || t.s == ">" || t.s == ">=") {
			l.next()
			b, err := l.parseAdd()
			if err != nil {
				return nil, err
			}
			c := &SExpr{Kind: "binary", Name: t.s, Args: []*SExpr{a, b}}
			if conj == nil {
				conj = c
			} else {
				conj = &SExpr{Kind: "binary", Name: "&&", Args: []*SExpr{conj, c}}
			}
			a = b
			continue
		}
		break
	}
	if conj != nil {
		return conj, nil
	}
	return a, nil
}

func (l *lexer) parseAdd() (*SExpr, error) {
	a, err := l.parseMul()
	if err != nil {
		return nil, err
	}
	for {
		t := l.peek()
		if t.k == "op" && (t.s == "+" || t.s == "-") {
			l.next()
			b, err := l.parseMul()
			if err != nil {
				return nil, err
			}
			a = &SExpr{Kind: "binary", Name: t.s, Args: []*SExpr{a, b}}
			continue
		}
		break
	}
	return a, nil
}

func (l *lexer) parseMul() (*SExpr, error) {
	a, err := l.parseUnary()
	if err != nil {
		return nil, err
	}
	for {
		t := l.peek()
		if t.k == "op" && (t.s == "*" || t.s == "/" || t.s == "%" || t.s == "<<") {
			l.next()
			b, err := l.parseUnary()
			if err != nil {
				return nil, err
			}
			a = &SExpr{Kind: "binary", Name: t.s, Args: []*SExpr{a, b}}
			continue
		}
		break
	}
	return a, nil
}

func (l *lexer) parseUnary() (*SExpr, error) {
	if l.accept("!") {
		a, err := l.parseUnary()
		if err != nil {
			return nil, err
		}
		return &SExpr{Kind: "unary", Name: "!", Args: []*SExpr{a}}, nil
	}
	if l.accept("-") {
		a, err := l.parseUnary()
		if err != nil {
			return nil, err
		}
		return &SExpr{Kind: "unary", Name: "-", Args: []*SExpr{a}}, nil
	}
	return l.parsePostfix()
}

func (l *lexer) parseTypeText() string {
	// type text up to "," or "::" or ")" at depth 0
	var parts []string
	depth := 0
	for {
		t := l.peek()
		if t.k == "eof" {
			break
		}
		if t.k == "op" {
			if depth == 0 && (t.s == "," || t.s == "::" || t.s == ")") {
				break
			}
			if t.s == "(" || t.s == "[" {
				depth++
			}
			if t.s == ")" || t.s == "]" {
				depth--
			}
		}
		parts = append(parts, t.s)
		l.next()
	}
	return strings.Join(parts, "")
}

func (l *lexer) parsePostfix() (*SExpr, error) {
	var a *SExpr
	t := l.next()
	switch t.k {
	case "num":
		a = &SExpr{Kind: "num", Num: t.s}
	case "str":
		a = &SExpr{Kind: "str", Name: t.s}
	case "id":
		switch t.s {
		case "true", "false":
			a = &SExpr{Kind: "bool", Name: t.s}
		case "nil":
			a = &SExpr{Kind: "nil", Name: "nil"}
		case "forall", "exists":
			q := &SExpr{Kind: t.s}
			for {
				n := l.next()
				if n.k != "id" {
					return nil, fmt.Errorf("quantifier: expected variable in %q", l.src)
				}
				ty := ""
				if !l.isOp(",") && !l.isOp("::") {
					ty = l.parseTypeText()
				}
				q.Bound = append(q.Bound, SParam{n.s, ty})
				if l.accept(",") {
					continue
				}
				break
			}
			if err := l.expect("::"); err != nil {
				return nil, err
			}
			body, err := l.parseIff()
			if err != nil {
				return nil, err
			}
			q.Args = []*SExpr{body}
			return q, nil
		default:
			a = &SExpr{Kind: "ident", Name: t.s}
		}
	case "op":
		if t.s == "(" {
			e, err := l.parseIff()
			if err != nil {
				return nil, err
			}
			if err := l.expect(")"); err != nil {
				return nil, err
			}
			a = e
		} else {
			return nil, fmt.Errorf("unexpected %q in %q", t.s, l.src)
		}
	default:
		return nil, fmt.Errorf("unexpected end in %q", l.src)
	}
	for {
		switch {
		case l.accept("."):
			n := l.next()
			if n.k != "id" {
				return nil, fmt.Errorf("expected field name in %q", l.src)
			}
			a = &SExpr{Kind: "sel", Name: n.s, Args: []*SExpr{a}}
		case l.accept("["):
			i, err := l.parseIff()
			if err != nil {
				return nil, err
			}
			if err := l.expect("]"); err != nil {
				return nil, err
			}
			a = &SExpr{Kind: "index", Args: []*SExpr{a, i}}
		case l.isOp("("):
			// call: callee must be ident or pkg.ident
			name := ""
			if a.Kind == "ident" {
				name = a.Name
			} else if a.Kind == "sel" && a.Args[0].Kind == "ident" {
				name = a.Args[0].Name + "." + a.Name
			} else {
				return nil, fmt.Errorf("bad call target in %q", l.src)
			}
			l.next()
			c := &SExpr{Kind: "call", Name: name}
			typeArg := map[string]bool{"istype": true, "astype": true, "isptr": true, "asptr": true, "implements": true, "cast": true}
			if !l.isOp(")") {
				for {
					if typeArg[name] && len(c.Args) == 1 {
						// second argument is a Go type expression
						c.Args = append(c.Args, &SExpr{Kind: "ident", Name: l.parseTypeText()})
						break
					}
					x, err := l.parseIff()
					if err != nil {
						return nil, err
					}
					c.Args = append(c.Args, x)
					if l.accept(",") {
						continue
					}
					break
				}
			}
			if err := l.expect(")"); err != nil {
				return nil, err
			}
			a = c
		default:
			return a, nil
		}
	}
}

// ---------- contract files ----------

type Clause struct {
	Kind  string   // requires ensures invariant modifies
	Tags  []string // property ids
	Expr  *SExpr
	Locs  []*SExpr // modifies
	Text  string
	Label string
}

type GhostStmt struct {
	Kind string // ghost use assert assume
	LHS  *SExpr
	RHS  *SExpr
	Call *SExpr // use lemma(args)
	Cond *SExpr // optional "if cond:" guard
	Text string
	Tags []string
}

type Anchor struct {
	Kind   string // call return entry
	Callee string // for call: callee key suffix
	Ord    int
	When   string // before after
	Stmts  []*GhostStmt
	used   bool
}

type LoopSpec struct {
	Ord      int
	Invs     []*Clause
	Modifies []*SExpr
	HasMod   bool
	Rows     []*Row
	Unroll   bool
}

// Row of a segment table: event pattern list, condition, continuation.
type Row struct {
	Name   string
	Events []*EvPat
	When   *SExpr
	Then   string // continue exit return
	Text   string
	Tags   []string
	hit    bool
}

type EvPat struct {
	Kind string     // recv send send? close ctxdone call go timer default
	Chan *SExpr      // channel expression (recv/send/close)
	Args []*SExpr    // send value / call args (nil or "_" ident = wildcard); for recv: binders
	Bind []string   // binder names: recv -> (v, ok) ; call -> results
	OK   string     // recv: "true"/"false"/"" (any)
	Fn   string     // call: observed function name
	Named map[string]*SExpr // go of a closure: captured variable name -> pattern (unlisted captures are not constrained)
	Text string
}

type FuncSpec struct {
	Key      string
	Props    []string
	Requires []*Clause
	Ensures  []*Clause
	Modifies []*SExpr
	HasMod   bool
	Loops    map[int]*LoopSpec
	Anchors  []*Anchor
	Observe  []string
	Opaque   []string
	CallReqs []*CallReq // exit require clauses
	ExitRows []*Row // event rows for the path from the last cut point to return
	EntryRows []*Row
	Inline   bool // never use modularly (always inline)
	Trusted  bool // contract assumed, body not verified (listed as assumption)
	IsIface  bool
	IsExt    bool
	Pure     bool
	Params   []SParam // for ext/iface specs: parameter names
	Locals   []localDecl // local variables (declaration order, with types) when the contract was written
	Decl     string // name-free signature of the function when the contract was written
	RenamedFrom string
	Sig      []string // names of receiver and parameters when the contract was written (contract names survive a renaming)
	Results  []string
	File     string
	Pkg      string // rel pkg of the contract file
	Opts     map[string]string
}

// CallReq: "exit require name: call F(args) as (r..) when COND then POST" (loop-free functions): on every path
// on which COND holds at the exit, F was called exactly once and the call satisfies POST.
type CallReq struct {
	Forbid bool // exit forbid: when COND holds the call must NOT have happened
	Name string
	Pat  *EvPat
	When *SExpr
	Then *SExpr
	Tags []string
	Text string
}

type SpecFn struct {
	Name   string
	Params []SParam
	Ret    string // int bool
	Def    *SExpr
	Pkg    string
}

type Pred struct {
	Name   string
	Params []SParam
	Body   *SExpr
	Pkg    string
}

type GhostField struct {
	Type  string // struct type name (package-local)
	Field string
	Sort  string // int bool
	Pkg   string
}

type Lemma struct {
	Name     string
	Params   []SParam
	Requires []*SExpr
	Ensures  []*SExpr
	Just     string // "lean <name>" | "trusted <reason>" | "smt"
	Pkg      string
	Proof    []*GhostStmt
	Props    []string
}

type TableSpec struct {
	Global string
	Facts  []*Clause
	Pkg    string
	Props  []string
}

type Specs struct {
	Funcs   map[string]*FuncSpec
	SpecFns map[string]*SpecFn
	Preds   map[string]*Pred
	Ghosts  []*GhostField
	Lemmas  map[string]*Lemma
	Tables  []*TableSpec
	Order   []string
	FuncNames map[string][]string // pkg-rel -> names of all functions of the package when the contracts were written
	Fields  map[string][]localDecl // "<pkg-rel>.<Type>" -> the fields of the struct when the contracts were written
}

func NewSpecs() *Specs {
	return &Specs{Funcs: map[string]*FuncSpec{}, SpecFns: map[string]*SpecFn{}, Preds: map[string]*Pred{}, Lemmas: map[string]*Lemma{}}
}

var clauseKeywords = map[string]bool{"spec": true, "pred": true, "ghost": true, "lemma": true, "func": true, "sig": true, "decl": true, "funcnames": true, "locals": true, "fields": true, "iface": true,
	"extern": true, "requires": true, "ensures": true, "modifies": true, "loop": true, "at": true, "observe": true, "opaque": true,
	"row": true, "exit": true, "entry": true, "props": true, "inline": true, "trusted": true, "table": true, "fact": true, "pure": true,
	"params": true, "results": true, "opt": true, "just": true, "proof": true}

// readSpecLines extracts the //@ lines (or all non-comment lines for .sxc files) and joins continuation lines.
func readSpecLines(path string) ([]string, error) {
	data, err := os.ReadFile(path)
	if err != nil {
		return nil, err
	}
	isGo := strings.HasSuffix(path, ".go")
	var out []string
	for _, ln := range strings.Split(string(data), "\n") {
		s := strings.TrimSpace(ln)
		if isGo {
			if !strings.HasPrefix(s, "//@") {
				continue
			}
			s = strings.TrimSpace(strings.TrimPrefix(s, "//@"))
		} else {
			if strings.HasPrefix(s, "#") {
				continue
			}
		}
		// strip trailing comment " // ..."
		if i := strings.Index(s, " // "); i >= 0 {
			s = strings.TrimSpace(s[:i])
		}
		if s == "" || strings.HasPrefix(s, "//") {
			continue
		}
		first := s
		if i := strings.IndexAny(s, " \t["); i >= 0 {
			first = s[:i]
		}
		if clauseKeywords[first] || len(out) == 0 {
			out = append(out, s)
		} else {
			out[len(out)-1] += " " + s
		}
	}
	return out, nil
}

func parseTags(s string) ([]string, string) {
	s = strings.TrimSpace(s)
	if strings.HasPrefix(s, "[") {
		if i := strings.Index(s, "]"); i > 0 {
			inner := s[1:i]
			ok := true
			var tags []string
			for _, t := range strings.Split(inner, ",") {
				t = strings.TrimSpace(t)
				if len(t) < 3 || t[0] != 'C' {
					ok = false
				}
				tags = append(tags, t)
			}
			if ok {
				return tags, strings.TrimSpace(s[i+1:])
			}
		}
	}
	return nil, s
}

// optional label: `name: expr` where name is an identifier followed by ':' (not '::')
func parseLabel(s string) (string, string) {
	for i, r := range s {
		if unicode.IsLetter(r) || unicode.IsDigit(r) || r == '_' || r == '-' {
			continue
		}
		if r == ':' && i > 0 && !strings.HasPrefix(s[i:], "::") && !strings.HasPrefix(s[i:], ":=") {
			return s[:i], strings.TrimSpace(s[i+1:])
		}
		break
	}
	return "", s
}

func parseParams(s string) ([]SParam, error) {
	s = strings.TrimSpace(s)
	if s == "" {
		return nil, nil
	}
	var out []SParam
	depth := 0
	start := 0
	parts := []string{}
	for i, r := range s {
		switch r {
		case '(', '[':
			depth++
		case ')', ']':
			depth--
		case ',':
			if depth == 0 {
				parts = append(parts, s[start:i])
				start = i + 1
			}
		}
	}
	parts = append(parts, s[start:])
	for _, p := range parts {
		p = strings.TrimSpace(p)
		f := strings.SplitN(p, " ", 2)
		sp := SParam{Name: f[0]}
		if len(f) == 2 {
			sp.Type = strings.TrimSpace(f[1])
		}
		out = append(out, sp)
	}
	return out, nil
}

func splitTop(s string, sep rune) []string {
	var parts []string
	depth := 0
	start := 0
	inStr := false
	rs := []rune(s)
	for i := 0; i < len(rs); i++ {
		r := rs[i]
		if inStr {
			if r == '\\' {
				i++
			} else if r == '"' {
				inStr = false
			}
			continue
		}
		switch r {
		case '"':
			inStr = true
		case '(', '[', '{':
			depth++
		case ')', ']', '}':
			depth--
		default:
			if r == sep && depth == 0 {
				parts = append(parts, strings.TrimSpace(string(rs[start:i])))
				start = i + 1
			}
		}
	}
	parts = append(parts, strings.TrimSpace(string(rs[start:])))
	return parts
}

func parseGhostStmts(s string, tags []string) ([]*GhostStmt, error) {
	var out []*GhostStmt
	for _, part := range splitTop(s, ';') {
		if part == "" {
			continue
		}
		g := &GhostStmt{Text: part, Tags: tags}
		// optional guard: if <cond> then <stmt>
		if strings.HasPrefix(part, "if ") {
			i := strings.Index(part, " then ")
			if i < 0 {
				return nil, fmt.Errorf("ghost: 'if' without 'then' in %q", part)
			}
			c, err := ParseSpecExpr(part[3:i])
			if err != nil {
				return nil, err
			}
			g.Cond = c
			part = strings.TrimSpace(part[i+6:])
		}
		switch {
		case strings.HasPrefix(part, "ghost "):
			body := strings.TrimPrefix(part, "ghost ")
			i := strings.Index(body, ":=")
			if i < 0 {
				return nil, fmt.Errorf("ghost assignment needs ':=' in %q", part)
			}
			l, err := ParseSpecExpr(body[:i])
			if err != nil {
				return nil, err
			}
			r, err := ParseSpecExpr(body[i+2:])
			if err != nil {
				return nil, err
			}
			g.Kind, g.LHS, g.RHS = "ghost", l, r
		case strings.HasPrefix(part, "use "):
			c, err := ParseSpecExpr(strings.TrimPrefix(part, "use "))
			if err != nil {
				return nil, err
			}
			if c.Kind != "call" {
				return nil, fmt.Errorf("use needs lemma(args): %q", part)
			}
			g.Kind, g.Call = "use", c
		case strings.HasPrefix(part, "assert "):
			c, err := ParseSpecExpr(strings.TrimPrefix(part, "assert "))
			if err != nil {
				return nil, err
			}
			g.Kind, g.RHS = "assert", c
		case strings.HasPrefix(part, "assume "):
			c, err := ParseSpecExpr(strings.TrimPrefix(part, "assume "))
			if err != nil {
				return nil, err
			}
			g.Kind, g.RHS = "assume", c
		default:
			return nil, fmt.Errorf("unknown ghost statement %q", part)
		}
		out = append(out, g)
	}
	return out, nil
}

// row syntax:  row name: [ ev ; ev ; ... ] when cond -> continue|exit|return
// events: recv CH as (v, ok) | recv CH as (v, true) | send CH X | send? CH X | close CH | ctxdone | call F(args) as (r1, r2) | go F | default | timer X
func parseRow(s string, tags []string) (*Row, error) {
	name, rest := parseLabel(s)
	r := &Row{Name: name, Text: s, Tags: tags}
	i := strings.Index(rest, "[")
	j := -1
	if i >= 0 {
		depth := 0
		for k := i; k < len(rest); k++ {
			if rest[k] == '[' {
				depth++
			} else if rest[k] == ']' {
				depth--
				if depth == 0 {
					j = k
					break
				}
			}
		}
	}
	if i < 0 || j < i {
		return nil, fmt.Errorf("row needs [events]: %q", s)
	}
	evs := rest[i+1 : j]
	tail := strings.TrimSpace(rest[j+1:])
	if k := strings.LastIndex(tail, "->"); k >= 0 {
		r.Then = strings.TrimSpace(tail[k+2:])
		tail = strings.TrimSpace(tail[:k])
	}
	if strings.HasPrefix(tail, "when ") {
		c, err := ParseSpecExpr(strings.TrimPrefix(tail, "when "))
		if err != nil {
			return nil, err
		}
		r.When = c
	} else if tail != "" {
		return nil, fmt.Errorf("row: unexpected %q", tail)
	}
	for _, ev := range splitTop(evs, ';') {
		if ev == "" {
			continue
		}
		p, err := parseEvPat(ev)
		if err != nil {
			return nil, err
		}
		r.Events = append(r.Events, p)
	}
	return r, nil
}

func parseEvPat(s string) (*EvPat, error) {
	p := &EvPat{Text: s}
	f := strings.SplitN(s, " ", 2)
	p.Kind = f[0]
	rest := ""
	if len(f) == 2 {
		rest = strings.TrimSpace(f[1])
	}
	bind := ""
	if i := strings.LastIndex(rest, " as "); i >= 0 {
		bind = strings.TrimSpace(rest[i+4:])
		rest = strings.TrimSpace(rest[:i])
	}
	if bind != "" {
		bind = strings.TrimSuffix(strings.TrimPrefix(bind, "("), ")")
		for _, b := range strings.Split(bind, ",") {
			p.Bind = append(p.Bind, strings.TrimSpace(b))
		}
	}
	switch p.Kind {
	case "ctxdone", "default", "any":
	case "recv":
		c, err := ParseSpecExpr(rest)
		if err != nil {
			return nil, err
		}
		p.Chan = c
		if len(p.Bind) == 2 && (p.Bind[1] == "true" || p.Bind[1] == "false") {
			p.OK = p.Bind[1]
			p.Bind[1] = "_"
		}
	case "close", "timer":
		c, err := ParseSpecExpr(rest)
		if err != nil {
			return nil, err
		}
		p.Chan = c
	case "send", "send?":
		parts := splitTopSpace(rest)
		if len(parts) != 2 {
			return nil, fmt.Errorf("send needs channel and value: %q", s)
		}
		c, err := ParseSpecExpr(parts[0])
		if err != nil {
			return nil, err
		}
		v, err := ParseSpecExpr(parts[1])
		if err != nil {
			return nil, err
		}
		p.Chan = c
		p.Args = []*SExpr{v}
	case "call", "go", "defer":
		if p.Kind == "go" && strings.HasSuffix(rest, "}") && strings.Contains(rest, "{") {
			i := strings.Index(rest, "{")
			p.Fn = strings.TrimSpace(rest[:i])
			p.Named = map[string]*SExpr{}
			for _, kv := range splitTop(rest[i+1:len(rest)-1], ',') {
				kv = strings.TrimSpace(kv)
				if kv == "" {
					continue
				}
				j := strings.Index(kv, ":")
				if j < 0 {
					return nil, fmt.Errorf("go pattern: expected name: pattern in %q", s)
				}
				x, err := ParseSpecExpr(strings.TrimSpace(kv[j+1:]))
				if err != nil {
					return nil, err
				}
				p.Named[strings.TrimSpace(kv[:j])] = x
			}
			return p, nil
		}
		// function names may contain characters that are not part of the expression language ((*T).m$1)
		i := strings.Index(rest, "(")
		if i > 0 && strings.HasPrefix(rest, "(") {
			// name starts with a receiver in parentheses: the argument list is the last (...) group
			i = -1
		}
		if strings.HasSuffix(rest, ")") {
			// find the "(" that opens the final (...) group, skipping string literals
			depth, start, inStr := 0, -1, false
			last := -1
			for k := 0; k < len(rest); k++ {
				c := rest[k]
				if inStr {
					if c == '\\' {
						k++
					} else if c == '"' {
						inStr = false
					}
					continue
				}
				switch c {
				case '"':
					inStr = true
				case '(':
					if depth == 0 {
						start = k
					}
					depth++
				case ')':
					depth--
					if depth == 0 && k == len(rest)-1 {
						last = start
					}
				}
			}
			i = last
			// "(*T).m" alone ends with no argument group: the group found is the receiver
			if i == 0 {
				i = -1
			}
		} else {
			i = -1
		}
		if i < 0 {
			p.Fn = rest
		} else {
			p.Fn = strings.TrimSpace(rest[:i])
			c, err := ParseSpecExpr("f" + rest[i:])
			if err != nil {
				return nil, err
			}
			p.Args = c.Args
			if p.Args == nil {
				p.Args = nil
			}
		}
	default:
		return nil, fmt.Errorf("unknown event kind %q in %q", p.Kind, s)
	}
	return p, nil
}

// split "CH VALUE" at the first top-level space
func splitTopSpace(s string) []string {
	depth := 0
	for i, r := range s {
		switch r {
		case '(', '[':
			depth++
		case ')', ']':
			depth--
		case ' ':
			if depth == 0 {
				return []string{strings.TrimSpace(s[:i]), strings.TrimSpace(s[i+1:])}
			}
		}
	}
	return []string{s}
}

func (sp *Specs) LoadFile(path, pkgRel string) error {
	lines, err := readSpecLines(path)
	if err != nil {
		return err
	}
	var cur *FuncSpec
	var curLemma *Lemma
	var curTable *TableSpec
	fail := func(ln string, err error) error { return fmt.Errorf("%s: %q: %v", path, ln, err) }
	for _, ln := range lines {
		kw := ln
		rest := ""
		if i := strings.IndexAny(ln, " \t["); i >= 0 {
			kw = ln[:i]
			rest = strings.TrimSpace(ln[i:])
		}
		switch kw {
		case "spec":
			// spec name(params) ret [= expr]
			i := strings.Index(rest, "(")
			j := matchParen(rest, i)
			if i < 0 || j < 0 {
				return fail(ln, fmt.Errorf("bad spec decl"))
			}
			ps, _ := parseParams(rest[i+1 : j])
			tail := strings.TrimSpace(rest[j+1:])
			sf := &SpecFn{Name: strings.TrimSpace(rest[:i]), Params: ps, Pkg: pkgRel}
			if k := strings.Index(tail, "="); k >= 0 {
				d, err := ParseSpecExpr(tail[k+1:])
				if err != nil {
					return fail(ln, err)
				}
				sf.Def = d
				tail = strings.TrimSpace(tail[:k])
			}
			sf.Ret = tail
			sp.SpecFns[sf.Name] = sf
			cur, curLemma, curTable = nil, nil, nil
		case "pred":
			i := strings.Index(rest, "(")
			j := matchParen(rest, i)
			k := strings.Index(rest[j:], "=")
			if i < 0 || j < 0 || k < 0 {
				return fail(ln, fmt.Errorf("bad pred decl"))
			}
			ps, _ := parseParams(rest[i+1 : j])
			body, err := ParseSpecExpr(rest[j+k+1:])
			if err != nil {
				return fail(ln, err)
			}
			pd := &Pred{Name: strings.TrimSpace(rest[:i]), Params: ps, Body: body, Pkg: pkgRel}
			sp.Preds[pkgRel+"::"+pd.Name] = pd
			if _, dup := sp.Preds[pd.Name]; !dup {
				sp.Preds[pd.Name] = pd // first definition is also reachable unqualified (from other packages)
			}
			cur, curLemma, curTable = nil, nil, nil
		case "ghost":
			if cur != nil && (strings.Contains(rest, ":=")) {
				return fail(ln, fmt.Errorf("ghost statements belong to an 'at' clause"))
			}
			f := strings.Fields(rest)
			if len(f) != 2 || !strings.Contains(f[0], ".") {
				return fail(ln, fmt.Errorf("ghost field decl: ghost Type.field sort"))
			}
			tf := strings.SplitN(f[0], ".", 2)
			sp.Ghosts = append(sp.Ghosts, &GhostField{Type: tf[0], Field: tf[1], Sort: f[1], Pkg: pkgRel})
		case "lemma":
			i := strings.Index(rest, "(")
			j := matchParen(rest, i)
			if i < 0 || j < 0 {
				return fail(ln, fmt.Errorf("bad lemma decl"))
			}
			ps, _ := parseParams(rest[i+1 : j])
			curLemma = &Lemma{Name: strings.TrimSpace(rest[:i]), Params: ps, Pkg: pkgRel, Just: "trusted"}
			sp.Lemmas[curLemma.Name] = curLemma
			cur, curTable = nil, nil
		case "just":
			if curLemma == nil {
				return fail(ln, fmt.Errorf("just outside lemma"))
			}
			curLemma.Just = rest
		case "proof":
			if curLemma == nil {
				return fail(ln, fmt.Errorf("proof outside lemma"))
			}
			stmts, err := parseGhostStmts(rest, nil)
			if err != nil {
				return fail(ln, err)
			}
			curLemma.Proof = append(curLemma.Proof, stmts...)
		case "table":
			curTable = &TableSpec{Global: rest, Pkg: pkgRel}
			sp.Tables = append(sp.Tables, curTable)
			cur, curLemma = nil, nil
		case "fact":
			if curTable == nil {
				return fail(ln, fmt.Errorf("fact outside table"))
			}
			tags, r := parseTags(rest)
			label, r := parseLabel(r)
			e, err := ParseSpecExpr(r)
			if err != nil {
				return fail(ln, err)
			}
			curTable.Facts = append(curTable.Facts, &Clause{Kind: "fact", Tags: tags, Expr: e, Text: r, Label: label})
		case "func", "iface", "extern":
			key := rest
			if kw != "extern" && pkgRel != "" && !strings.HasPrefix(key, "functype ") && !strings.Contains(strings.SplitN(key, "(", 2)[0], "/") && !strings.HasPrefix(key, pkgRel+".") {
				key = pkgRel + "." + key
			}
			cur = &FuncSpec{Key: key, Loops: map[int]*LoopSpec{}, File: path, Pkg: pkgRel, IsIface: kw == "iface", IsExt: kw == "extern", Opts: map[string]string{}}
			if old, ok := sp.Funcs[key]; ok {
				return fail(ln, fmt.Errorf("duplicate contract for %s (first in %s)", key, old.File))
			}
			sp.Funcs[key] = cur
			sp.Order = append(sp.Order, key)
			curLemma, curTable = nil, nil
		case "props":
			ps := strings.Fields(strings.ReplaceAll(rest, ",", " "))
			if curLemma != nil {
				curLemma.Props = ps
			} else if cur != nil {
				cur.Props = ps
			} else if curTable != nil {
				curTable.Props = ps
			}
		case "params":
			if cur == nil {
				return fail(ln, fmt.Errorf("params outside func"))
			}
			cur.Params, _ = parseParams(rest)
		case "results":
			if cur == nil {
				return fail(ln, fmt.Errorf("results outside func"))
			}
			for _, r := range strings.Split(rest, ",") {
				cur.Results = append(cur.Results, strings.TrimSpace(r))
			}
		case "sig":
			if cur == nil {
				return fail(ln, fmt.Errorf("sig outside func"))
			}
			for _, r := range strings.Split(rest, ",") {
				if r = strings.TrimSpace(r); r != "" {
					cur.Sig = append(cur.Sig, r)
				}
			}
		case "decl":
			if cur != nil {
				cur.Decl = strings.TrimSpace(rest)
			}
		case "funcnames":
			if sp.FuncNames == nil {
				sp.FuncNames = map[string][]string{}
			}
			sp.FuncNames[pkgRel] = append(sp.FuncNames[pkgRel], strings.Fields(rest)...)
		case "fields":
			// fields <Type> name: type ;; ...   (generated: the struct's fields when the contracts were written)
			f := strings.SplitN(rest, " ", 2)
			if len(f) == 2 {
				if sp.Fields == nil {
					sp.Fields = map[string][]localDecl{}
				}
				k := f[0]
				if pkgRel != "" {
					k = pkgRel + "." + k
				}
				sp.Fields[k] = parseLocals(f[1])
			}
		case "locals":
			if cur == nil {
				return fail(ln, fmt.Errorf("locals outside func"))
			}
			cur.Locals = append(cur.Locals, parseLocals(rest)...)
		case "inline":
			cur.Inline = true
		case "trusted":
			cur.Trusted = true
			cur.Opts["trusted"] = rest
		case "pure":
			cur.Pure = true
		case "opt":
			f := strings.SplitN(rest, " ", 2)
			if len(f) == 2 {
				cur.Opts[f[0]] = f[1]
			} else {
				cur.Opts[f[0]] = "true"
			}
		case "observe":
			for _, o := range strings.Split(rest, ",") {
				cur.Observe = append(cur.Observe, strings.TrimSpace(o))
			}
		case "opaque":
			// repo functions without a contract that are NOT inlined in this unit: the call is an event, its
			// results and everything it may write (static write set, pointer arguments) are unknown afterwards
			for _, o := range strings.Split(rest, ",") {
				cur.Opaque = append(cur.Opaque, strings.TrimSpace(o))
				cur.Observe = append(cur.Observe, strings.TrimSpace(o))
			}
		case "requires", "ensures":
			tags, r := parseTags(rest)
			label, r := parseLabel(r)
			e, err := ParseSpecExpr(r)
			if err != nil {
				return fail(ln, err)
			}
			if curLemma != nil {
				if kw == "requires" {
					curLemma.Requires = append(curLemma.Requires, e)
				} else {
					curLemma.Ensures = append(curLemma.Ensures, e)
				}
				continue
			}
			if cur == nil {
				return fail(ln, fmt.Errorf("%s outside func", kw))
			}
			c := &Clause{Kind: kw, Tags: tags, Expr: e, Text: r, Label: label}
			if kw == "requires" {
				cur.Requires = append(cur.Requires, c)
			} else {
				cur.Ensures = append(cur.Ensures, c)
			}
		case "modifies":
			if cur == nil {
				return fail(ln, fmt.Errorf("modifies outside func"))
			}
			cur.HasMod = true
			if strings.TrimSpace(rest) != "nothing" {
				for _, p := range splitTop(rest, ',') {
					e, err := ParseSpecExpr(p)
					if err != nil {
						return fail(ln, err)
					}
					cur.Modifies = append(cur.Modifies, e)
				}
			}
		case "loop":
			if cur == nil {
				return fail(ln, fmt.Errorf("loop outside func"))
			}
			f := strings.SplitN(rest, " ", 3)
			if len(f) < 2 {
				return fail(ln, fmt.Errorf("loop k invariant|modifies|row ..."))
			}
			k, err := strconv.Atoi(f[0])
			if err != nil {
				return fail(ln, err)
			}
			ls := cur.Loops[k]
			if ls == nil {
				ls = &LoopSpec{Ord: k}
				cur.Loops[k] = ls
			}
			body := ""
			if len(f) == 3 {
				body = f[2]
			}
			switch f[1] {
			case "invariant":
				tags, r := parseTags(body)
				label, r := parseLabel(r)
				e, err := ParseSpecExpr(r)
				if err != nil {
					return fail(ln, err)
				}
				ls.Invs = append(ls.Invs, &Clause{Kind: "invariant", Tags: tags, Expr: e, Text: r, Label: label})
			case "modifies":
				ls.HasMod = true
				if strings.TrimSpace(body) != "nothing" {
					for _, p := range splitTop(body, ',') {
						e, err := ParseSpecExpr(p)
						if err != nil {
							return fail(ln, err)
						}
						ls.Modifies = append(ls.Modifies, e)
					}
				}
			case "row":
				tags, r := parseTags(body)
				row, err := parseRow(r, tags)
				if err != nil {
					return fail(ln, err)
				}
				ls.Rows = append(ls.Rows, row)
			case "unroll":
				ls.Unroll = true
			default:
				return fail(ln, fmt.Errorf("unknown loop clause %q", f[1]))
			}
		case "exit", "entry":
			// exit row name: [events] when cond
			if kw == "exit" && strings.HasPrefix(rest, "forbid ") {
				tags, r := parseTags(strings.TrimPrefix(rest, "forbid "))
				name, body := parseLabel(r)
				iw := strings.Index(body, " when ")
				if iw < 0 {
					return fail(ln, fmt.Errorf("exit forbid name: call F(..) when COND"))
				}
				pat, err := parseEvPat(strings.TrimSpace(body[:iw]))
				if err != nil {
					return fail(ln, err)
				}
				we, err := ParseSpecExpr(strings.TrimSpace(body[iw+6:]))
				if err != nil {
					return fail(ln, err)
				}
				cur.CallReqs = append(cur.CallReqs, &CallReq{Forbid: true, Name: name, Pat: pat, When: we, Tags: tags, Text: "forbid " + body})
				cur.Observe = append(cur.Observe, pat.Fn)
				continue
			}
			if kw == "exit" && strings.HasPrefix(rest, "require ") {
				tags, r := parseTags(strings.TrimPrefix(rest, "require "))
				name, body := parseLabel(r)
				iw := strings.Index(body, " when ")
				it := strings.LastIndex(body, " then ")
				if iw < 0 || it < iw {
					return fail(ln, fmt.Errorf("exit require name: call F(..) as (..) when COND then POST"))
				}
				pat, err := parseEvPat(strings.TrimSpace(body[:iw]))
				if err != nil {
					return fail(ln, err)
				}
				we, err := ParseSpecExpr(strings.TrimSpace(body[iw+6 : it]))
				if err != nil {
					return fail(ln, err)
				}
				te, err := ParseSpecExpr(strings.TrimSpace(body[it+6:]))
				if err != nil {
					return fail(ln, err)
				}
				cur.CallReqs = append(cur.CallReqs, &CallReq{Name: name, Pat: pat, When: we, Then: te, Tags: tags, Text: body})
				cur.Observe = append(cur.Observe, pat.Fn)
				continue
			}
			if !strings.HasPrefix(rest, "row ") {
				return fail(ln, fmt.Errorf("%s row ...", kw))
			}
			tags, r := parseTags(strings.TrimPrefix(rest, "row "))
			row, err := parseRow(r, tags)
			if err != nil {
				return fail(ln, err)
			}
			if kw == "exit" {
				cur.ExitRows = append(cur.ExitRows, row)
			} else {
				cur.EntryRows = append(cur.EntryRows, row)
			}
		case "at":
			// at call <callee>#k [before|after]: stmts   |  at return k: stmts | at entry: stmts
			i := strings.Index(rest, ": ")
			if i < 0 {
				return fail(ln, fmt.Errorf("at ...: stmts"))
			}
			head := strings.TrimSpace(rest[:i])
			tags, body := parseTags(rest[i+2:])
			stmts, err := parseGhostStmts(body, tags)
			if err != nil {
				return fail(ln, err)
			}
			a := &Anchor{Stmts: stmts, When: "after"}
			hf := strings.Fields(head)
			switch hf[0] {
			case "entry":
				a.Kind = "entry"
			case "return":
				a.Kind = "return"
				a.Ord = -1
				if len(hf) > 1 {
					a.Ord, _ = strconv.Atoi(hf[1])
				}
			case "call":
				a.Kind = "call"
				if len(hf) < 2 {
					return fail(ln, fmt.Errorf("at call callee#k"))
				}
				cs := hf[1]
				if j := strings.LastIndex(cs, "#"); j >= 0 {
					a.Ord, _ = strconv.Atoi(cs[j+1:])
					cs = cs[:j]
				}
				a.Callee = cs
				if len(hf) > 2 {
					a.When = hf[2]
				}
			default:
				return fail(ln, fmt.Errorf("unknown anchor %q", hf[0]))
			}
			cur.Anchors = append(cur.Anchors, a)
		default:
			return fail(ln, fmt.Errorf("unknown keyword %q", kw))
		}
	}
	return nil
}

func matchParen(s string, i int) int {
	if i < 0 {
		return -1
	}
	depth := 0
	for j := i; j < len(s); j++ {
		switch s[j] {
		case '(':
			depth++
		case ')':
			depth--
			if depth == 0 {
				return j
			}
		}
	}
	return -1
}
