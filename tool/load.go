package main

import (
	"fmt"
	"go/types"
	"os"
	"path/filepath"
	"sort"
	"strings"

	"golang.org/x/tools/go/packages"
	"golang.org/x/tools/go/ssa"
	"golang.org/x/tools/go/ssa/ssautil"
)

const repoModule = "github.com/v-byte-cpu/sx"

type Program struct {
	RepoDir string
	Pkgs    []*packages.Package
	Prog    *ssa.Program
	SSAPkgs map[string]*ssa.Package // by import path
	Funcs   map[string]*ssa.Function // by contract key (see funcKey)
}

// LoadRepo loads the packages of /repo (current working tree) with build tag verif and builds SSA
// for them (dependencies are type-checked only; their function bodies are never built).
func LoadRepo(dir string, patterns []string) (*Program, error) {
	cfg := &packages.Config{
		Mode:       packages.LoadAllSyntax,
		Dir:        dir,
		BuildFlags: []string{"-tags=verif"},
		Env: append(os.Environ(), "GOFLAGS=-mod=mod", "GOPROXY=off", "GOSUMDB=off", "GOTOOLCHAIN=local",
			"CGO_ENABLED=1"),
	}
	pkgs, err := packages.Load(cfg, patterns...)
	if err != nil {
		return nil, err
	}
	var errs []string
	for _, p := range pkgs {
		for _, e := range p.Errors {
			errs = append(errs, e.Error())
		}
	}
	if len(errs) > 0 {
		return nil, fmt.Errorf("load errors:\n%s", strings.Join(errs, "\n"))
	}
	prog, spkgs := ssautil.Packages(pkgs, ssa.GlobalDebug|ssa.BareInits)
	p := &Program{RepoDir: dir, Pkgs: pkgs, Prog: prog, SSAPkgs: map[string]*ssa.Package{}, Funcs: map[string]*ssa.Function{}}
	for i, sp := range spkgs {
		if sp == nil {
			return nil, fmt.Errorf("no SSA for %s", pkgs[i].PkgPath)
		}
		sp.Build()
		p.SSAPkgs[sp.Pkg.Path()] = sp
	}
	for fn := range ssautil.AllFunctions(prog) {
		if fn.Pkg == nil || !strings.HasPrefix(fn.Pkg.Pkg.Path(), repoModule) {
			if fn.Parent() == nil {
				continue
			}
		}
		k := funcKey(fn)
		if k != "" {
			p.Funcs[k] = fn
		}
	}
	// promoted methods (a method a repo type gets from an embedded field): go/ssa builds a synthetic wrapper that
	// forwards to the embedded value. It gets the key the method would have if it were written out, so that a
	// contract can pin "this method IS the embedded one"; a hand-written method of that name replaces the wrapper.
	for fn := range ssautil.AllFunctions(prog) {
		if fn.Pkg != nil || fn.Parent() != nil || !strings.HasPrefix(fn.Synthetic, "wrapper for") || len(fn.Blocks) == 0 {
			continue
		}
		recv := fn.Signature.Recv()
		if recv == nil {
			continue
		}
		t := recv.Type()
		ptr := false
		if pt, ok := t.(*types.Pointer); ok {
			ptr = true
			t = pt.Elem()
		}
		nt, ok := t.(*types.Named)
		if !ok || nt.Obj().Pkg() == nil || !strings.HasPrefix(nt.Obj().Pkg().Path(), repoModule) {
			continue
		}
		name := "(" + nt.Obj().Name() + ")." + fn.Name()
		if ptr {
			name = "(*" + nt.Obj().Name() + ")." + fn.Name()
		}
		k := relPkg(nt.Obj().Pkg().Path()) + "." + name
		if _, exists := p.Funcs[k]; !exists {
			p.Funcs[k] = fn
		}
	}
	return p, nil
}

// funcKey: contract key of a function: "<pkg-rel>.Name", "<pkg-rel>.(*T).Method", closures "...$k".
// pkg-rel is the import path relative to the module ("pkg/scan", "command", "" for main).
func funcKey(fn *ssa.Function) string {
	if fn.Parent() != nil {
		pk := funcKey(fn.Parent())
		if pk == "" {
			return ""
		}
		// ssa names closures Parent$k
		n := fn.Name()
		i := strings.LastIndex(n, "$")
		if i < 0 {
			return ""
		}
		return pk + n[i:]
	}
	if fn.Pkg == nil {
		return ""
	}
	path := fn.Pkg.Pkg.Path()
	if !strings.HasPrefix(path, repoModule) {
		return ""
	}
	rel := strings.TrimPrefix(strings.TrimPrefix(path, repoModule), "/")
	name := fn.Name()
	if recv := fn.Signature.Recv(); recv != nil {
		t := recv.Type()
		ptr := false
		if pt, ok := t.(*types.Pointer); ok {
			ptr = true
			t = pt.Elem()
		}
		tn := "?"
		if nt, ok := t.(*types.Named); ok {
			tn = nt.Obj().Name()
		}
		if ptr {
			name = "(*" + tn + ")." + name
		} else {
			name = "(" + tn + ")." + name
		}
	}
	return rel + "." + name
}

func relPkg(path string) string {
	return strings.TrimPrefix(strings.TrimPrefix(path, repoModule), "/")
}

func inRepo(pkg *types.Package) bool {
	return pkg != nil && strings.HasPrefix(pkg.Path(), repoModule)
}

// contract files: /repo/<pkg>/contracts_verif.go
func contractFiles(repo string) []string {
	var out []string
	filepath.Walk(repo, func(p string, info os.FileInfo, err error) error {
		if err == nil && !info.IsDir() && info.Name() == "contracts_verif.go" {
			out = append(out, p)
		}
		return nil
	})
	sort.Strings(out)
	return out
}
