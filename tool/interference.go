package main

import (
	"fmt"

	"golang.org/x/tools/go/ssa"
)

// The contracts of this tool describe one goroutine at a time: a row "[recv c as (e, true) ; send out e]" is proved
// for the goroutine's own sequence of operations, with the memory it reads changing only through its own writes.
// That is sound only if the goroutine does not WRITE memory that another goroutine may touch meanwhile. Channels,
// WaitGroups and the objects handed over through channels are covered by the ownership rules (ownership.go); what
// remains are the variables a function literal captures from its enclosing function. interferingWrites reports the
// stores of fn to a captured variable that is shared with another goroutine:
//   - fn runs as a goroutine (it is the target of a go statement, directly or through a local that holds it), and
//   - the variable outlives one instance: the go statement sits in a loop that does not contain the variable's
//     declaration (several instances share it), or another function literal captures the same variable, or the
//     enclosing function still reads or writes it after the goroutine was started.
// A goroutine that writes only variables nobody else can reach (the generators' `ips, err = …` inside the single
// producer goroutine they start before returning) is fine.
func interferingWrites(p *Program, fn *ssa.Function) []string {
	if len(fn.FreeVars) == 0 || fn.Parent() == nil {
		return nil
	}
	written := map[int]ssa.Instruction{}
	for _, b := range fn.Blocks {
		for _, ins := range b.Instrs {
			if st, ok := ins.(*ssa.Store); ok {
				if fv, ok := st.Addr.(*ssa.FreeVar); ok {
					for i, v := range fn.FreeVars {
						if v == fv {
							if _, dup := written[i]; !dup {
								written[i] = ins
							}
						}
					}
				}
			}
		}
	}
	if len(written) == 0 {
		return nil
	}
	parent := fn.Parent()
	// closure creation sites and go sites in the parent
	var makes []*ssa.MakeClosure
	var gos []*ssa.Go
	for _, b := range parent.Blocks {
		for _, ins := range b.Instrs {
			switch x := ins.(type) {
			case *ssa.MakeClosure:
				if x.Fn == ssa.Value(fn) {
					makes = append(makes, x)
				}
			case *ssa.Go:
				if mc, ok := x.Call.Value.(*ssa.MakeClosure); ok && mc.Fn == ssa.Value(fn) {
					gos = append(gos, x)
				} else if !x.Call.IsInvoke() && closureReaches(x.Call.Value, fn) {
					gos = append(gos, x)
				}
			}
		}
	}
	if len(gos) == 0 {
		return nil // not a goroutine body of its parent (called synchronously, deferred, or handed elsewhere)
	}
	var out []string
	for i, at := range written {
		name := fn.FreeVars[i].Name()
		pos := p.Prog.Fset.Position(at.Pos()).String()
		why := ""
		for _, mc := range makes {
			if i >= len(mc.Bindings) {
				continue
			}
			cell := mc.Bindings[i]
			// (a) several instances share the cell
			for _, g := range gos {
				if inLoopWithout(g.Block(), cell) {
					why = "every goroutine started by the go statement in the loop shares it"
				}
			}
			if len(gos) > 1 {
				why = "several go statements start goroutines that share it"
			}
			// (b) another function literal captures it; (c) the enclosing function uses it after the go
			if refs := cell.Referrers(); refs != nil && why == "" {
				for _, r := range *refs {
					switch x := r.(type) {
					case *ssa.MakeClosure:
						if x != mc {
							why = "another function literal captures it as well"
						}
					case *ssa.DebugRef:
					default:
						for _, g := range gos {
							if reachableAfter(g, r) {
								why = "the enclosing function still uses it after starting the goroutine"
							}
						}
					}
				}
			}
			if _, isFV := cell.(*ssa.FreeVar); isFV && why == "" {
				why = "it belongs to an outer function literal"
			}
		}
		if why != "" {
			out = append(out, fmt.Sprintf("goroutine writes the captured variable %s at %s: %s", name, pos, why))
		}
	}
	return out
}

// inLoopWithout: block b lies in a natural loop that does not contain the instruction defining v
func inLoopWithout(b *ssa.BasicBlock, v ssa.Value) bool {
	var defBlock *ssa.BasicBlock
	if ins, ok := v.(ssa.Instruction); ok {
		defBlock = ins.Block()
	}
	for _, h := range b.Parent().Blocks {
		if !isLoopHead(h) {
			continue
		}
		loop := naturalLoop(h)
		if loop[b] && (defBlock == nil || !loop[defBlock]) {
			return true
		}
	}
	return false
}

// closureReaches: v may hold the function literal f (v is the closure, or a cell/phi it was stored into)
func closureReaches(v ssa.Value, f *ssa.Function) bool {
	seen := map[ssa.Value]bool{}
	var walk func(v ssa.Value) bool
	walk = func(v ssa.Value) bool {
		if v == nil || seen[v] {
			return false
		}
		seen[v] = true
		switch x := v.(type) {
		case *ssa.MakeClosure:
			return x.Fn == ssa.Value(f)
		case *ssa.Function:
			return x == f
		case *ssa.Phi:
			for _, e := range x.Edges {
				if walk(e) {
					return true
				}
			}
		case *ssa.UnOp:
			if refs := x.X.Referrers(); refs != nil {
				for _, r := range *refs {
					if st, ok := r.(*ssa.Store); ok && st.Addr == x.X && walk(st.Val) {
						return true
					}
				}
			}
		case *ssa.ChangeType:
			return walk(x.X)
		}
		return false
	}
	return walk(v)
}
