package main

import (
	"bytes"
	"context"
	"fmt"
	"os"
	"os/exec"
	"path/filepath"
	"time"
)

// runOverlayTest injects an in-package test file through `go test -overlay` (the repository is never
// written) and reports whether the test failed.
func runOverlayTest(repo, pkgRel, testSrc, runRegex string) (string, bool) {
	dir, err := os.MkdirTemp("", "sxv-replay-")
	if err != nil {
		return err.Error(), false
	}
	defer os.RemoveAll(dir)
	tf := filepath.Join(dir, "zz_sxv_replay_test.go")
	os.WriteFile(tf, []byte(testSrc), 0o644)
	ov := filepath.Join(dir, "ov.json")
	os.WriteFile(ov, []byte(fmt.Sprintf(`{"Replace":{%q:%q}}`, filepath.Join(repo, pkgRel, "zz_sxv_replay_test.go"), tf)), 0o644)
	ctx, cancel := context.WithTimeout(context.Background(), 120*time.Second)
	defer cancel()
	cmd := exec.CommandContext(ctx, "go", "test", "-overlay", ov, "-vet=off", "-count=1", "-timeout", "60s", "-run", runRegex, "-v", "./"+pkgRel)
	cmd.Dir = repo
	cmd.Env = append(os.Environ(), "GOFLAGS=-mod=mod", "GOPROXY=off", "GOSUMDB=off", "GOTOOLCHAIN=local")
	var out bytes.Buffer
	cmd.Stdout = &out
	cmd.Stderr = &out
	err = cmd.Run()
	s := out.String()
	if len(s) > 6000 {
		s = s[:6000] + "…"
	}
	return s, err != nil && bytes.Contains(out.Bytes(), []byte("--- FAIL"))
}
