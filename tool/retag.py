#!/usr/bin/env python3
"""Adds property tags to contract units by pipeline stage (never removes a tag).
A unit is tagged with a property when the property's statement talks about the stage the unit belongs to.
usage: retag.py [--dry]"""
import re, glob, sys
STAGE_PROPS = {
 'target':  'C01 C02 C03 C05 C08 C09 C10 C13 C17 C18',
 'gen':     'C01 C02 C04 C05 C07 C08 C09 C10 C11 C12 C13 C17 C19',
 'iter':    'C01 C02 C04 C08 C09 C10 C19',
 'cache':   'C01 C02 C05 C07 C11 C12 C13 C17',
 'pktgen':  'C01 C02 C05 C07 C11 C12 C13 C16 C17 C19',
 'fill':    'C01 C02 C05 C07 C11 C13 C17 C18 C19',
 'send':    'C01 C05 C07 C11 C12 C13 C15 C16 C19',
 'recv':    'C03 C06 C11 C12 C16 C20',
 'errs':    'C03 C07 C08 C12 C13 C16 C20',
 'proc':    'C03 C06 C11 C14 C16 C20',
 'filter':  'C01 C02 C03',
 'result':  'C03 C06 C08 C09 C10 C11 C12 C14 C16 C20',
 'log':     'C03 C06 C08 C09 C10 C11 C12 C13 C14 C16 C19 C20',
 'pktcmd':  'C01 C02 C03 C05 C06 C07 C11 C12 C13 C14 C15 C16 C17 C18 C19',
 'appcmd':  'C01 C02 C08 C09 C10 C12 C13 C14 C15 C16 C18',
 'engine':  'C01 C03 C06 C07 C08 C09 C10 C11 C12 C13 C14 C15 C16 C19 C20',
 'app':     'C01 C02 C08 C09 C10 C12 C13 C15',
 'socks':   'C01 C02 C08 C09 C12 C14',
 'docker':  'C01 C02 C08 C10 C12 C14',
 'elastic': 'C01 C02 C08 C10 C12 C14',
 'iface':   'C17 C05 C02 C11',
 'optplumb': 'C05 C18',
}
RULES = [  # (package regex, function regex, stage)
 (r'pkg/ip', r'ParseIPNet', 'target'),
 (r'pkg/ip', r'Get', 'iface'),
 (r'command', r'parseDstSubnet|parseScanRange|parsePortRange|parsePortsFile|parseExcludeFile|parseRawOptions|newStdinOpener|newIPPortGenerator', 'target'),
 (r'command', r'getScanRange|getInterface|getLocalSubnetInterface', 'iface'),
 (r'command', r'getUDPOptions|getICMPOptions|parseIPFlags|parseTCPFlags|parsePacketPayload|^init$', 'optplumb'),
 (r'pkg/scan/(arp|tcp|udp|icmp)', r'^With', 'optplumb'),
 (r'pkg/scan$', r'rangeIterator|newRangeIterator', 'iter'),
 (r'pkg/scan$', r'ipGenerator|portGenerator|ipPortGenerator|ipRequestGenerator|fileIPPortGenerator|fileIPGenerator|filterIPRequestGenerator|liveRequestGenerator|validatePorts|isValidPort|NewIPPortGenerator|NewIPRequestGenerator|NewFileIP|NewLiveRequestGenerator|NewFilterIPRequestGenerator', 'gen'),
 (r'pkg/scan/arp', r'cacheReqGenerator|Cache\)|NewCache|FillCache', 'cache'),
 (r'command', r'getGatewayMAC|parseARPCache|validateARPStdin|isARPCacheFromStdin', 'cache'),
 (r'pkg/scan$', r'packetGenerator|packetMultiGenerator|MergeBufferDataChan|packetSource|NewPacketSource|NewPacketGenerator|NewPacketMultiGenerator', 'pktgen'),
 (r'pkg/scan/(arp|tcp|udp|icmp)', r'PacketFiller\)\.Fill|NewPacketFiller', 'fill'),
 (r'pkg/scan/(arp|tcp|udp|icmp)', r'ScanMethod\)\.Packets', 'pktgen'),
 (r'pkg/packet$', r'sender|FreeSerializeBuffer|NewSender|rateLimitReadWriter\)\.WritePacketData|NewRateLimitReadWriter', 'send'),
 (r'pkg/packet/afpacket', r'WritePacketData|NewPacketSource', 'send'),
 (r'pkg/packet/afpacket', r'NewPacketSource', 'iface'),
 (r'pkg/packet/afpacket', r'ReadPacketData', 'recv'),
 (r'pkg/packet/afpacket', r'SetBPFFilter', 'filter'),
 (r'pkg/packet$', r'receiver|NewReceiver|isTemporaryError|isUnrecoverableError|rateLimitReadWriter\)\.ReadPacketData', 'recv'),
 (r'pkg/scan$', r'mergeErrChan', 'errs'),
 (r'pkg/scan$', r'PacketEngine|NewPacketEngine|SetupPacketEngine', 'engine'),
 (r'pkg/scan$', r'PacketEngine|SetupPacketEngine', 'recv'),
 (r'pkg/scan/(arp|tcp|udp|icmp)', r'ProcessPacketData|validPacket|NewScanMethod|NewPacketProcessor|AllFlags|EmptyFlags|TrueFilter|WithPacketFilterFunc|WithPacketFlagsFunc|WithScanVPNmode', 'proc'),
 (r'pkg/scan/(arp|tcp|udp|icmp)', r'BPFFilter', 'filter'),
 (r'pkg/scan$', r'resultChan|NewResultChan|engineResulter|NewEngineResulter', 'result'),
 (r'pkg/scan/(arp|tcp|udp|icmp)', r'\)\.Results', 'result'),
 (r'command/log', r'.', 'log'),
 (r'command', r'getLogger', 'log'),
 (r'command', r'startScanEngine|startPortScanEngine|startPacketScanEngine|newEngineConfig|withExitDelay|withLogger', 'engine'),
 (r'pkg/scan$', r'GenericEngine|rateLimitScanner|NewRateLimitScanner|NewScanEngine|WithScanWorkerCount', 'app'),
 (r'command', r'genericScanCmdOpts\)\.newScanEngine', 'app'),
 (r'command', r'^new(ARP|ICMP|UDP|TCPFIN|TCPNULL|TCPXmas|TCPSYN|TCPFlags)Cmd\$1$|tcpSYNCmdOpts\)\.startScan$|newTCPScanMethod|newUDPScanMethod|newICMPScanMethod|newARPScanMethod|ipScanCmdOpts\)\.parseOptions|ipPortScanCmdOpts\)\.parseOptions', 'pktcmd'),
 (r'command', r'^new(Socks|Docker|Elastic)Cmd\$1$|newSOCKSScanEngine|newDockerScanEngine|newElasticScanEngine', 'appcmd'),
 (r'pkg/scan/(arp|tcp|udp|icmp)', r'String|MarshalJSON|easyjson|\)\.ID$', 'proc'),
 (r'pkg/scan/socks5', r'String|MarshalJSON|easyjson', 'socks'),
 (r'pkg/scan/docker', r'String|MarshalJSON|easyjson', 'docker'),
 (r'pkg/scan/elastic', r'String|MarshalJSON|easyjson', 'elastic'),
 (r'pkg/scan/socks5', r'^(?!.*(MarshalJSON|String)).*$', 'socks'),
 (r'pkg/scan/docker', r'^(?!.*(MarshalJSON|String)).*$', 'docker'),
 (r'pkg/scan/elastic', r'^(?!.*(MarshalJSON|String)).*$', 'elastic'),
]
dry = '--dry' in sys.argv
total = 0
for f in sorted(glob.glob('**/contracts_verif.go', recursive=True)):
    pk = f.rsplit('/', 1)[0]
    lines = open(f).read().split('\n')
    for i, l in enumerate(lines):
        m = re.match(r'//@ func (.*)$', l)
        if not m:
            continue
        fn = m.group(1)
        j = None
        for k in range(i + 1, min(i + 7, len(lines))):
            if lines[k].startswith('//@   props'):
                j = k
                break
        if j is None:
            continue
        have = lines[j].split()[2:]
        add = []
        for prx, frx, stage in RULES:
            if re.search(prx, pk) and re.search(frx, fn):
                for p in STAGE_PROPS[stage].split():
                    if p not in have and p not in add:
                        add.append(p)
        if add:
            total += len(add)
            if dry:
                print(pk, fn, '+', ' '.join(add))
            lines[j] = lines[j].rstrip() + ' ' + ' '.join(add)
    if not dry:
        open(f, 'w').write('\n'.join(lines))
print('tags added:', total)
