/-
Lemma layer of the sx verification (property C04 / C01): the number-theoretic facts the SMT solvers cannot do.
seq g p k = g^k mod p ; prim g p = p is prime and g generates (Z/pZ)* (order p-1).
Each theorem corresponds to a `lemma` declared in /repo/pkg/scan/contracts_verif.go (same name, `just lean Orbit.<name>`).
Checked with Lean 4.33 + Mathlib (thorough tier: `lean lemmas/lean/Orbit.lean`).
-/
import Mathlib

namespace Orbit

def seq (g p k : ℕ) : ℕ := g ^ k % p

/-- p prime and g a primitive root modulo p -/
def prim (g p : ℕ) : Prop := p.Prime ∧ orderOf (g : ZMod p) = p - 1

theorem step (g p k : ℕ) : seq g p (k + 1) = (seq g p k * g) % p := by
  unfold seq
  rw [pow_succ, Nat.mul_mod (g ^ k) g p, Nat.mul_mod (g ^ k % p) g p, Nat.mod_mod]

theorem exp (g p k : ℕ) : g ^ k % p = seq g p k := rfl

lemma cast_seq (g p k : ℕ) [NeZero p] : ((seq g p k : ℕ) : ZMod p) = (g : ZMod p) ^ k := by
  unfold seq
  rw [ZMod.natCast_mod, Nat.cast_pow]

lemma g_ne_zero {g p : ℕ} (h : prim g p) : (g : ZMod p) ≠ 0 := by
  obtain ⟨hp, ho⟩ := h
  haveI := Fact.mk hp
  intro hz
  have h2 : 2 ≤ p := hp.two_le
  rw [hz] at ho
  have : orderOf (0 : ZMod p) = 0 := by
    rw [orderOf_eq_zero_iff']
    intro n hn
    simp [zero_pow (Nat.pos_iff_ne_zero.mp hn)]
  omega

theorem range (g p k : ℕ) (h : prim g p) : 1 ≤ seq g p k ∧ seq g p k ≤ p - 1 := by
  obtain ⟨hp, ho⟩ := h
  haveI := Fact.mk hp
  have hpos : 0 < p := hp.pos
  constructor
  · by_contra hlt
    have hz : seq g p k = 0 := by omega
    have : ((seq g p k : ℕ) : ZMod p) = 0 := by rw [hz]; simp
    rw [cast_seq] at this
    exact g_ne_zero ⟨hp, ho⟩ (pow_eq_zero_iff (by
      intro hk; subst hk; simp at this) |>.mp this)
  · have : seq g p k < p := Nat.mod_lt _ hpos
    omega

theorem period (g p k : ℕ) (h : prim g p) : seq g p (k + p - 1) = seq g p k := by
  obtain ⟨hp, ho⟩ := h
  haveI := Fact.mk hp
  have h1 : 1 ≤ p := hp.one_lt.le
  have hk : k + p - 1 = k + (p - 1) := by omega
  have key : (g : ZMod p) ^ (k + (p - 1)) = (g : ZMod p) ^ k := by
    rw [pow_add, ← ho, pow_orderOf_eq_one, mul_one]
  have hc : ((seq g p (k + p - 1) : ℕ) : ZMod p) = ((seq g p k : ℕ) : ZMod p) := by
    rw [cast_seq, cast_seq, hk, key]
  have hm := (ZMod.natCast_eq_natCast_iff' _ _ _).mp hc
  unfold seq at hm ⊢
  rw [Nat.mod_mod, Nat.mod_mod] at hm
  exact hm

theorem inj (g p j k : ℕ) (h : prim g p) (hjk : j < k) (hk : k < j + p - 1) : seq g p j ≠ seq g p k := by
  obtain ⟨hp, ho⟩ := h
  haveI := Fact.mk hp
  intro heq
  have hc : (g : ZMod p) ^ j = (g : ZMod p) ^ k := by
    rw [← cast_seq, ← cast_seq, heq]
  have hg : (g : ZMod p) ≠ 0 := g_ne_zero ⟨hp, ho⟩
  have hd : (g : ZMod p) ^ (k - j) = 1 := by
    have : (g : ZMod p) ^ j * (g : ZMod p) ^ (k - j) = (g : ZMod p) ^ j * 1 := by
      rw [← pow_add, mul_one, Nat.add_sub_cancel' hjk.le, hc]
    exact mul_left_cancel₀ (pow_ne_zero _ hg) this
  have hdvd : orderOf (g : ZMod p) ∣ k - j := orderOf_dvd_of_pow_eq_one hd
  rw [ho] at hdvd
  have hpos : 0 < k - j := by omega
  have := Nat.le_of_dvd hpos hdvd
  omega

theorem cop_pow (n m r : ℕ) (h : Nat.Coprime n m) : Nat.Coprime (n ^ r % m) m := by
  have h2 : Nat.Coprime (n ^ r) m := Nat.Coprime.pow_left r h
  unfold Nat.Coprime at h2 ⊢
  rw [← Nat.gcd_rec, Nat.gcd_comm]
  exact h2

theorem gen_pow (g p e : ℕ) (h : prim g p) (he : Nat.Coprime e (p - 1)) : prim (g ^ e % p) p := by
  obtain ⟨hp, ho⟩ := h
  haveI := Fact.mk hp
  refine ⟨hp, ?_⟩
  have hc : ((g ^ e % p : ℕ) : ZMod p) = (g : ZMod p) ^ e := by
    rw [ZMod.natCast_mod, Nat.cast_pow]
  rw [hc]
  have : (orderOf (g : ZMod p)).Coprime e := by rw [ho]; exact he.symm
  rw [this.orderOf_pow, ho]

/-- every residue 1..p-1 is hit by an exponent inside any window of p-1 consecutive exponents -/
theorem surj (g p y base : ℕ) (h : prim g p) (hy1 : 1 ≤ y) (hy2 : y ≤ p - 1) :
    ∃ i, base ≤ i ∧ i ≤ base + p - 2 ∧ seq g p i = y := by
  obtain ⟨hp, ho⟩ := h
  haveI := Fact.mk hp
  have hp2 : 2 ≤ p := hp.two_le
  -- the p-1 values seq (base), ..., seq (base+p-2) are pairwise different and lie in 1..p-1
  let f : ℕ → ℕ := fun i => seq g p (base + i)
  have hinj : Set.InjOn f (Finset.range (p - 1) : Set ℕ) := by
    intro a ha b hb hab
    simp only [Finset.coe_range, Set.mem_Iio] at ha hb
    by_contra hne
    rcases Nat.lt_or_gt_of_ne hne with hlt | hlt
    · exact inj g p (base + a) (base + b) ⟨hp, ho⟩ (by omega) (by omega) hab
    · exact inj g p (base + b) (base + a) ⟨hp, ho⟩ (by omega) (by omega) hab.symm
  have hmaps : ∀ i ∈ Finset.range (p - 1), f i ∈ Finset.Icc 1 (p - 1) := by
    intro i _
    have := range g p (base + i) ⟨hp, ho⟩
    exact Finset.mem_Icc.mpr this
  have hcard : (Finset.Icc 1 (p - 1)).card ≤ (Finset.range (p - 1)).card := by
    simp
  have hsurj := Finset.surj_on_of_inj_on_of_card_le (fun i _ => f i) hmaps
    (fun a b ha hb hab => hinj (by simpa using ha) (by simpa using hb) hab) hcard
  obtain ⟨i, hi, hiy⟩ := hsurj y (Finset.mem_Icc.mpr ⟨hy1, hy2⟩)
  have hi' : i < p - 1 := Finset.mem_range.mp hi
  exact ⟨base + i, by omega, by omega, hiy.symm⟩

end Orbit
