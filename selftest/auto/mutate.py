#!/usr/bin/env python3
"""Automatic mutation analysis of the contracts (self-test of the machinery, not a check).
Generates one-line syntactic mutants of /repo's non-test sources, keeps those that compile and pass the whole test
suite, and runs all property checks on them in scratch copies. Mutants that no check flags are written to
survivors.txt for manual review (equivalent mutant, or a hole in the contracts).
usage: mutate.py <count> <seed> [workers]"""
import os, re, sys, random, subprocess, shutil, json, hashlib
from concurrent.futures import ThreadPoolExecutor
ENV = dict(os.environ, GOFLAGS='-mod=mod', GOPROXY='off', GOSUMDB='off', GOTOOLCHAIN='local')
REPO = '/repo'
OUT = '/verif/selftest/auto'
PROPS = ['C%02d' % i for i in range(1, 21)]
ORDER = ['C01', 'C03', 'C13', 'C16', 'C14', 'C05', 'C08', 'C11', 'C17', 'C18', 'C15', 'C02', 'C07', 'C12', 'C19', 'C20', 'C06', 'C09', 'C10', 'C04']

def sources():
    out = []
    for d, _, fs in os.walk(REPO):
        if '/.git' in d:
            continue
        for f in fs:
            if f.endswith('.go') and not f.endswith('_test.go') and 'easyjson' not in f and f != 'contracts_verif.go' and 'mock' not in f.lower() and f != 'readwriter_other.go' and f != 'ip_other.go':
                out.append(os.path.join(d, f))
    return sorted(out)

OPS = [
    (r' <= ', ' < '), (r' < ', ' <= '), (r' >= ', ' > '), (r' > ', ' >= '),
    (r' == ', ' != '), (r' != ', ' == '), (r' && ', ' || '), (r' \|\| ', ' && '),
    (r' \+ ', ' - '), (r' - ', ' + '), (r'\btrue\b', 'false'), (r'\bfalse\b', 'true'),
    (r'\bcontinue\b', 'break'), (r'\bbreak\b', 'continue'),
]

def candidates():
    c = []
    for f in sources():
        lines = open(f).read().split('\n')
        infunc = False
        for i, l in enumerate(lines):
            s = l.strip()
            if l.startswith('func '):
                infunc = True
            if not infunc or not s or s.startswith('//') or s.startswith('import') or s.startswith('"'):
                continue
            code = l.split('//')[0]
            if '"' in code and code.count('"') % 2 == 0:
                # mutate only outside string literals: crude - skip lines whose operator hits are inside quotes
                pass
            for pat, rep in OPS:
                for m in re.finditer(pat, code):
                    # skip if inside a string literal
                    if code[:m.start()].count('"') % 2 == 1 or code[:m.start()].count('`') % 2 == 1:
                        continue
                    c.append((f, i, 'op', m.start(), m.end(), rep))
            for m in re.finditer(r'(?<![\w."])(\d+)(?![\w."])', code):
                if code[:m.start()].count('"') % 2 == 1:
                    continue
                v = int(m.group(1))
                c.append((f, i, 'op', m.start(), m.end(), str(v + 1)))
                if v > 0:
                    c.append((f, i, 'op', m.start(), m.end(), str(v - 1)))
            # statement deletion: simple statements only
            if re.match(r'^[\w.\[\]*&, ]+(:?=|\+=|-=) .*[^{(,]$', s) or re.match(r'^[\w.]+\(.*\)$', s) or s in ('continue', 'break') or re.match(r'^defer [\w.]+\(.*\)$', s):
                c.append((f, i, 'del', 0, 0, ''))
    return c

def run(cmd, cwd, timeout):
    try:
        p = subprocess.run(cmd, cwd=cwd, env=ENV, stdout=subprocess.PIPE, stderr=subprocess.STDOUT, timeout=timeout)
        return p.returncode, p.stdout.decode(errors='replace')
    except subprocess.TimeoutExpired:
        return 124, 'timeout'

def work(args):
    k, cand = args
    f, i, kind, a, b, rep = cand
    S = '/tmp/automut%d_%d' % (os.getpid(), k)
    if os.path.exists(S):
        shutil.rmtree(S)
    subprocess.run(['rsync', '-a', '--exclude', '.git', REPO + '/', S + '/'])
    rel = os.path.relpath(f, REPO)
    lines = open(os.path.join(S, rel)).read().split('\n')
    old = lines[i]
    if kind == 'del':
        ind = old[:len(old) - len(old.lstrip())]
        lines[i] = ind + '// (deleted) ' + old.strip()
    else:
        lines[i] = old[:a] + rep + old[b:]
    new = lines[i]
    open(os.path.join(S, rel), 'w').write('\n'.join(lines))
    desc = '%s:%d: %s  =>  %s' % (rel, i + 1, old.strip(), new.strip())
    res = {'desc': desc}
    rc, out = run(['go', 'build', './...'], S, 180)
    if rc != 0:
        res['status'] = 'nocompile'
    else:
        flagged = []
        # every unit once (pseudo-property ALL); only a VIOLATION (exit 1) counts as flagged
        rc, out = run(['/verif/bin/sxv', 'check', '-repo', S, '-p', 'ALL', '-out', S + '/.sxvout'], '/verif', 600)
        if rc == 1:
            flagged.append('ALL(1)')
        elif rc != 0:
            res['note'] = 'exit %d' % rc
        if flagged:
            res['status'] = 'flagged'
            res['flagged'] = flagged
        else:
            rc, out = run(['go', 'test', '-vet=off', '-count=1', '-p', '4', '-timeout', '120s', './...'], S, 400)
            res['status'] = 'SURVIVED' if rc == 0 else 'killed-by-tests-only'
    shutil.rmtree(S, ignore_errors=True)
    return res

def main():
    n = int(sys.argv[1]); seed = int(sys.argv[2]); workers = int(sys.argv[3]) if len(sys.argv) > 3 else 6
    c = candidates()
    random.Random(seed).shuffle(c)
    c = c[:n]
    print('candidates sampled:', len(c), flush=True)
    stats = {}
    with ThreadPoolExecutor(workers) as ex, open(os.path.join(OUT, 'log_%d.txt' % seed), 'w') as log, open(os.path.join(OUT, 'survivors_%d.txt' % seed), 'w') as sv:
        for r in ex.map(work, list(enumerate(c))):
            stats[r['status']] = stats.get(r['status'], 0) + 1
            log.write('%s\t%s\t%s\n' % (r['status'], ' '.join(r.get('flagged', [])), r['desc'])); log.flush()
            if r['status'] == 'SURVIVED':
                sv.write(r['desc'] + '\n'); sv.flush()
    print(stats)

main()
